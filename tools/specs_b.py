SPECS = []

def H(pid, pkg, fn, tier, reach, bounds, what, **kw):
    d = {"pkg": pkg, "fn": f"VerifHarness_{pid}_{fn}", "tier": tier, "require_reach": reach, "bounds": bounds, "what": what}
    d.update(kw)
    return d

DB = "internal/database"
TB = ["gosym executor and its intrinsics (validated by native replay of every counterexample)", "z3 4.8.12 (FP-free queries), cvc5 1.0 (floating point)", "go/ssa construction (x/tools v0.50.0)"]

SPECS.append({
 "property_id": "C06", "level": "model_checking",
 "explanation": "The real NLP analysis (ProcessQuery, 16 hint tables, GetEnhancedKeywords), the append-only merge in enhanceQueryWithNLP, the term cap in selectTopTerms and the whole SearchUniversal are executed symbolically with the query words (and, in the arbitrary-analysis harnesses, keywords / actions / targets) as solver variables: a word of symbolic letters is compared by the solver against every table word of its length.",
 "assumptions": ["query words: lower-case ASCII letters, 2-4 letters each, 1-2 words", "regexp stubs for the two cleaning patterns (exact ASCII-class matcher)", "candidate-superset harness: databases of <=3 commands (C03 family)"],
 "stubs": ["regexp ASCII-class stub", "strings intrinsics", "sort.Slice swapper"],
 "outside_the_claim": ["queries of more than two words / words longer than four letters (table words longer than that are only reached through concrete vocabulary)", "Unicode / punctuation in queries (C14, C20 cover cleaning and case)"],
 "trusted_base": TB,
 "harnesses": [
  H("C06", "internal/nlp", "EnhancedKK", "both", ["checked"], "analysis with two symbolic keywords (2-3 letters), any of 7 intents", "keywords first, no duplicates, repeatable"),
  H("C06", "internal/nlp", "EnhancedKA", "both", ["checked"], "keyword (2-4 letters) + action (4 letters)", "same"),
  H("C06", "internal/nlp", "EnhancedKT", "both", ["checked"], "keyword (2-4 letters) + target (4 letters)", "same"),
  H("C06", "internal/nlp", "EnhancedI", "both", ["checked"], "no words, every intent", "intent keywords only when few terms"),
  H("C06", "internal/nlp", "Process1", "both", ["checked"], "real analysis of one symbolic word (2-4 letters), run twice", "determinism + contract"),
  H("C06", "internal/nlp", "Process2", "both", ["checked"], "real analysis of two symbolic words (2-3 letters)", "determinism + contract"),
  H("C06", DB, "AppendOnly", "both", ["checked"], "1-2 symbolic words; real tokeniser + real analysis", "user's terms stay a prefix; cap 8; added terms come from the analysis"),
  H("C06", DB, "Select6", "both", ["checked"], "6 terms (1 symbolic), cap any int", "first four retained, subset, no duplicates"),
  H("C06", DB, "Select12", "both", ["checked"], "12 terms (2 symbolic), cap any int", "same, above the default cap of 10"),
  H("C06", DB, "Superset3Q", "both", ["checked", "nonempty"], "3 concrete commands x 3 shapes; 1-2 symbolic query words", "NLP-off results are NLP-on candidates"),
  H("C06", DB, "Superset2", "thorough", ["checked", "nonempty"], "2 commands with symbolic words", "same"),
 ],
 "manifest": {"text": "Bounded symbolic model checking of the NLP expansion pipeline: words are solver variables compared against every table word of their length; prefix / no-duplicate / retention / superset contracts asserted on every path.",
              "note": "Trusted: executor + intrinsics, z3, go/ssa. Bounds: <=2 query words of 2-4 ASCII letters; term lists <=12; databases <=3 commands."},
})

SPECS.append({
 "property_id": "C13", "level": "model_checking",
 "explanation": "Paired symbolic runs of the real SearchUniversal with and without ContextBoosts (boost factors are IEEE-754 solver variables in [1,1e6]): same candidate set, monotone scores for commands containing a boosted word, bit-identical scores otherwise; floating-point obligations are decided by cvc5 on variable-independent slices of the path condition. The directory analyzer is executed on symbolic listings (marker names chosen by the solver, Makefile bytes symbolic).",
 "assumptions": ["boost factors finite in [1, 1e6]", "math.Log native on concrete arguments", "databases: C03 family with concrete words; query words symbolic"],
 "stubs": ["regexp ASCII-class stub", "sort.Slice swapper", "os.ReadFile / json.Unmarshal through the engine's file-system model (analyzer harness)"],
 "outside_the_claim": ["boost factors outside [1,1e6] or non-finite", "databases larger than 3 commands", "semantic-embedding stage (C19)"],
 "trusted_base": TB,
 "harnesses": [
  H("C13", DB, "Paired2S", "both", ["paired", "nonempty"], "2 concrete commands, 1 symbolic query word, boost on the query word", "candidate set invariant, monotone / unchanged scores"),
  H("C13", DB, "Paired2NLPS", "thorough", ["paired", "nonempty"], "same with UseNLP", "relation survives the later stages"),
  H("C13", DB, "Paired2Q", "thorough", ["paired", "nonempty"], "2 commands x 3 shapes, 1-2 query words, two boosted words", "same"),
  H("C13", DB, "Paired2NLPQ", "thorough", ["paired", "nonempty"], "same with UseNLP", "same"),
 ],
 "manifest": {"text": "Relational (two-run) bounded symbolic checking with IEEE-754 boost factors as solver variables; monotonicity and candidate-set invariance are asserted per result and decided by cvc5 on sliced path conditions.",
              "note": "Trusted: executor + intrinsics, z3/cvc5, go/ssa. Bounds: 2-3 commands, 1-2 query words, boosts in [1,1e6]."},
})
