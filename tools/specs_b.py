SPECS = []

def H(pid, pkg, fn, tier, reach, bounds, what, **kw):
    d = {"pkg": pkg, "fn": f"VerifHarness_{pid}_{fn}", "tier": tier, "require_reach": reach, "bounds": bounds, "what": what}
    d.update(kw)
    return d

DB = "internal/database"
TB = ["gosym executor and its intrinsics (validated by native replay of every counterexample)", "z3 4.8.12 (FP-free queries), cvc5 1.0 (floating point)", "go/ssa construction (x/tools v0.50.0)"]

SPECS.append({
 "property_id": "C06", "level": "model_checking",
 "explanation": "The real NLP analysis (ProcessQuery, 16 hint tables, GetEnhancedKeywords), the append-only merge in enhanceQueryWithNLP, the term cap in selectTopTerms and the whole SearchUniversal are executed symbolically with the query words (and, in the arbitrary-analysis harnesses, keywords / actions / targets) as solver variables: a word of symbolic letters is compared by the solver against every table word of its length.",
 "assumptions": ["query words: lower-case ASCII letters, 2-4 letters each, 1-2 words", "regexp stubs for the two cleaning patterns (exact ASCII-class matcher)", "candidate-superset harness: databases of <=3 commands (C03 family)"],
 "stubs": ["regexp ASCII-class stub", "strings intrinsics", "sort.Slice swapper"],
 "outside_the_claim": ["queries of more than two words / words longer than four letters (table words longer than that are only reached through concrete vocabulary)", "Unicode / punctuation in queries (C14, C20 cover cleaning and case)"],
 "trusted_base": TB,
 "harnesses": [
  H("C06", "internal/nlp", "EnhancedKK", "both", ["checked"], "analysis with two symbolic keywords (2-3 letters), any of 7 intents", "keywords first, no duplicates, repeatable"),
  H("C06", "internal/nlp", "EnhancedKA", "both", ["checked"], "keyword (2-4 letters) + action (4 letters)", "same"),
  H("C06", "internal/nlp", "EnhancedKT", "both", ["checked"], "keyword (2-4 letters) + target (4 letters)", "same"),
  H("C06", "internal/nlp", "EnhancedI", "both", ["checked"], "no words, every intent", "intent keywords only when few terms"),
  H("C06", "internal/nlp", "Process1", "both", ["checked"], "real analysis of one symbolic word (2-4 letters), run twice", "determinism + contract"),
  H("C06", "internal/nlp", "Process2", "both", ["checked"], "real analysis of two symbolic words (2-3 letters)", "determinism + contract"),
  H("C06", DB, "AppendOnly", "both", ["checked"], "1-2 symbolic words; real tokeniser + real analysis", "user's terms stay a prefix; cap 8; added terms come from the analysis"),
  H("C06", DB, "Select6", "both", ["checked"], "6 terms (1 symbolic), cap any int", "first four retained, subset, no duplicates"),
  H("C06", DB, "Select12", "both", ["checked"], "12 terms (2 symbolic), cap any int", "same, above the default cap of 10"),
  H("C06", DB, "Superset3Q", "both", ["checked", "nonempty"], "3 concrete commands x 3 shapes; 1-2 symbolic query words", "NLP-off results are NLP-on candidates"),
  H("C06", DB, "SupersetAction", "both", ["checked", "nonempty"], "5 commands whose descriptions share the action words list / show; symbolic 4-letter first word, optional second word", "action words typed by the user that occur in most commands"),
  H("C06", DB, "Superset3Q3", "thorough", ["checked", "nonempty"], "3 semi-concrete commands; 1-3 query words", "same"),
 ],
 "manifest": {"text": "Bounded symbolic model checking of the NLP expansion pipeline: words are solver variables compared against every table word of their length; prefix / no-duplicate / retention / superset contracts asserted on every path.",
              "note": "Trusted: executor + intrinsics, z3, go/ssa. Bounds: <=2 query words of 2-4 ASCII letters; term lists <=12; databases <=3 commands."},
})

SPECS.append({
 "property_id": "C13", "level": "model_checking",
 "explanation": "Paired symbolic runs of the real SearchUniversal with and without ContextBoosts (boost factors are IEEE-754 solver variables in [1,1e6]): same candidate set, monotone scores for commands containing a boosted word, bit-identical scores otherwise; floating-point obligations are decided by cvc5 on variable-independent slices of the path condition. The directory analyzer is executed on symbolic listings (marker names chosen by the solver, Makefile bytes symbolic).",
 "assumptions": ["boost factors finite in [1, 1e6]", "math.Log native on concrete arguments", "databases: C03 family with concrete words; query words symbolic"],
 "stubs": ["regexp ASCII-class stub", "sort.Slice swapper", "os.ReadFile / json.Unmarshal through the engine's file-system model (analyzer harness)"],
 "outside_the_claim": ["boost factors outside [1,1e6] or non-finite", "databases larger than 3 commands", "semantic-embedding stage (C19)"],
 "trusted_base": TB,
 "harnesses": [
  H("C13", DB, "Paired2S", "both", ["paired", "nonempty"], "2 concrete commands, 1 symbolic query word, boost on the query word", "candidate set invariant, monotone / unchanged scores"),
  H("C13", DB, "Paired2NLPS", "thorough", ["paired", "nonempty"], "same with UseNLP", "relation survives the later stages"),
  H("C13", DB, "Paired2Q", "thorough", ["paired", "nonempty"], "2 commands x 3 shapes, 1-2 query words, two boosted words", "same"),
  H("C13", DB, "Paired2NLPQ", "thorough", ["paired", "nonempty"], "same with UseNLP", "same"),
  H("C13", DB, "PairedAction", "both", ["paired", "nonempty"], "NLP on; the boosted word is an action / target word of the query (build, find, files, module); factor from the grid {1,1.3,1.5,1.6,1.8,2,3,1e6}", "boost on an already emphasised word never lowers a score"),
  H("C13", DB, "PairedLongQuery", "both", ["paired", "nonempty"], "8-word query, term cap 4..7, boosted word among the later / earlier words, 3 factors, NLP on/off", "a query cut to the term cap keeps its candidate set under boosts"),
  H("C13", "internal/context", "Analyzer3", "both", ["analysed"], "3 of 14 marker names (types with several markers)", "each project type at most once even when its markers are not adjacent"),
  H("C13", "internal/context", "Analyzer1", "both", ["analysed"], "directory with 0-1 of 42 marker / non-marker names; Makefile = 4 symbolic bytes over {newline : # = . tab a b}; package.json with 1 script", "distinct types, generic iff nothing else, finite boosts >= 1, repeatable"),
  H("C13", "internal/context", "Analyzer2", "thorough", ["analysed"], "2 names, Makefile = 2 symbolic bytes", "same"),
 ],
 "manifest": {"text": "Relational (two-run) bounded symbolic checking with IEEE-754 boost factors as solver variables; monotonicity and candidate-set invariance are asserted per result and decided by cvc5 on sliced path conditions.",
              "note": "Trusted: executor + intrinsics, z3/cvc5, go/ssa. Bounds: 2-3 commands, 1-2 query words, boosts in [1,1e6]."},
})

SPECS.append({
 "property_id": "C04", "level": "model_checking",
 "flag_obligations": [
  {"pkg": "internal/cli", "in_functions_calling": "SearchUniversal", "option_field": "Platforms", "flag": "platform", "msg": "the CLI hands the --platform values to the engine as given (the handlers print, so their results cannot be observed; the wiring is checked on their SSA)"},
  {"pkg": "internal/cli", "in_functions_calling": "SearchUniversal", "option_field": "AllPlatforms", "flag": "all-platforms", "msg": "--all-platforms reaches the engine as given"},
  {"pkg": "internal/cli", "in_functions_calling": "SearchUniversal", "option_field": "NoCrossPlatform", "flag": "no-cross-platform", "msg": "--no-cross-platform reaches the engine as given"},
 ],
 "explanation": "SearchUniversal (lexical, NLP, typo-fallback paths) is executed symbolically on a database of commands with canonical, aliased, mixed-case, cross-platform and (thorough) symbolic platform tags, with every filter option a solver variable; each result is checked against an eligibility predicate spelled from the property statement (platforms in force, alias table, cross-platform rule, pipeline-only).",
 "assumptions": ["host platform = linux (runtime.GOOS is a constant of the SSA build)", "--platform values drawn from {none, windows, macos, linux+windows}", "database: 7 fixed commands (+1 with a symbolic 5-letter tag in the thorough tier)"],
 "stubs": ["regexp ASCII-class stub", "sort.Slice swapper"],
 "outside_the_claim": ["hosts other than linux", "the cached path (C05)", "platform names outside the documented alias table"],
 "trusted_base": TB,
 "harnesses": [
  H("C04", DB, "Lexical", "both", ["checked", "nonempty"], "all 2^3 flag settings x 4 platform lists x symbolic query word", "lexical path gate"),
  H("C04", DB, "NLP", "both", ["checked", "nonempty"], "same with UseNLP", "NLP path gate"),
  H("C04", DB, "Fuzzy", "both", ["checked", "nonempty"], "typo fallback on 'a'+symbolic letter", "fallback gate (platform + pipeline)"),
  H("C04", DB, "LegacyPipeline", "both", ["checked"], "legacy pipeline search", "pipeline-only gate"),
  H("C04", DB, "Cached", "both", ["checked", "nonempty"], "two requests through the cache layer (cached or monitored entry point); first: 2 flags, second: all 2^3 flags x 4 platform lists", "a cached answer passes the filter of the request it answers"),
  H("C04", DB, "EditedInPlace", "both", ["checked", "nonempty"], "the pipeline entry loses its flag and / or its pipe in place after the index was built; all filter flags symbolic", "the pipeline gate reads the command as it is now"),
  H("C04", DB, "LexicalTag", "thorough", ["checked", "nonempty"], "one command with a symbolic 5-letter mixed-case platform tag", "alias table / case-insensitivity"),
 ],
 "manifest": {"text": "Bounded symbolic model checking of the platform / pipeline gate on every search path with all filter options as solver variables and an eligibility oracle spelled from the property.",
              "note": "Trusted: executor + intrinsics, z3, go/ssa, host fixed to linux. Bounds: 7-8 commands, 4 platform lists."},
})

SPECS.append({
 "property_id": "C07", "level": "model_checking",
 "explanation": "Relational run of SearchUniversal with typo tolerance on / off (identical lists whenever the lexical answer is non-empty); the real third-party matcher (github.com/sahilm/fuzzy, executed from its source) on fully symbolic ASCII pattern and target bytes against a subsequence oracle; the fallback's threshold, order and completeness on databases with long unbroken words.",
 "assumptions": ["ASCII (< 0x80), NUL-free pattern and target bytes in the matcher harness (NUL is C10's subject; multi-byte folding is outside)", "limit 1..3, threshold any int"],
 "stubs": ["regexp ASCII-class stub", "sort.Stable runs from SSA", "unicode class intrinsics (exact below 0x80)"],
 "outside_the_claim": ["patterns longer than 3 / targets longer than 5 symbolic bytes", "non-ASCII case folding"],
 "trusted_base": TB,
 "harnesses": [
  H("C07", DB, "OnlyFallback", "both", ["lexical-answer", "no-lexical-answer"], "7-command database, 1-2 symbolic query words, limit 1..3, threshold any int", "fallback never overrides a lexical answer"),
  H("C07", DB, "OnlyFallbackNLP", "both", ["lexical-answer", "no-lexical-answer"], "same with UseNLP", "same"),
  H("C07", DB, "OnlyFallbackExpansion", "both", ["lexical-answer", "no-lexical-answer"], "8 commands named like hint targets; symbolic 4-letter query word (+ optional second word), NLP on", "answers that exist only through NLP expansion are not overridden either"),
  H("C07", DB, "FallbackLongText", "both", ["fallback", "fallback-nonempty"], "a 132-character command text; 2 symbolic query letters; threshold 0 / -1000", "a genuine match with a very low raw score is still returned"),
  H("C07", DB, "FallbackCase", "both", ["fallback", "fallback-nonempty"], "4 commands with camelCase / plain texts, lower-case caches filled or not; 4 queries", "results scored on the command's own text (reference: the real matcher on that text); completeness"),
  H("C07", DB, "FallbackFiltered", "both", ["fallback", "fallback-nonempty"], "4 better-matching windows-only commands + 1 eligible linux pipeline command; limit 1-2; pipeline-only / all-platforms flags", "ineligible matches do not crowd out an eligible one"),
  H("C07", DB, "FallbackPunct", "both", ["fallback", "fallback-nonempty"], "queries with one symbolic punctuation byte (! .. /) in 3 shapes", "the fallback matches the query as typed"),
  H("C07", DB, "Matcher23", "both", ["matched", "unmatched"], "pattern 1-2, target 0-3 symbolic ASCII bytes", "match <=> in-order occurrence; index sanity"),
  H("C07", DB, "Matcher24", "thorough", ["matched", "unmatched"], "pattern 1-2, target 0-4 symbolic ASCII bytes", "same"),
  H("C07", DB, "Fallback3", "both", ["fallback", "fallback-nonempty"], "3 commands with long words, 2 symbolic query letters, threshold any int", "genuine matches, threshold, order, completeness"),
  H("C07", DB, "Fallback5", "thorough", ["fallback", "fallback-nonempty"], "5 commands", "same"),
 ],
 "manifest": {"text": "Bounded symbolic model checking: two-run relation for 'fallback only when nothing matches', and the real fuzzy matcher on symbolic bytes against a subsequence oracle.",
              "note": "Trusted: executor + intrinsics, z3/cvc5, go/ssa. Bounds: ASCII, pattern<=3, target<=5, databases<=7 commands."},
})

SPECS.append({
 "property_id": "C10", "level": "model_checking",
 "explanation": "Panic-freedom by symbolic execution: every run-time check of Go (index, slice bounds, nil, makeslice size, division, type assertion) on a feasible path is an obligation. Queries and command texts are arbitrary bytes (NUL and invalid UTF-8 included), option integers are arbitrary 64-bit values, float options arbitrary IEEE values; the third-party fuzzy matcher and the utf8 / strings code run from their source. Loading is covered from the decoder outward (missing file, directory, damaged content, well-formed list) with the error classification asserted.",
 "assumptions": ["yaml.v3 and the RE2 engine are not executed: the decoder either fails or yields the entry list (file-system / decoder model), regexps use the exact ASCII-class stub", "'bounded time' = every loop exits within the executor's instruction budget for inputs within the length bound"],
 "stubs": ["file-system model, yaml decoder stub", "regexp ASCII-class stub"],
 "outside_the_claim": ["YAML of arbitrary shape reaching the real decoder", "queries longer than the stated bounds (1000-byte inputs are covered for validation in C14)"],
 "trusted_base": TB,
 "harnesses": [
  H("C10", DB, "FuzzyText2", "both", ["returned"], "command text 'a'+2 arbitrary bytes, typo fallback, 3 queries", "no panic in the fuzzy path", panic_freedom=True),
  H("C10", DB, "FuzzyText3", "thorough", ["returned"], "3 arbitrary bytes", "same", panic_freedom=True),
  H("C10", DB, "Suggestions", "both", ["returned"], "command text with 2 arbitrary bytes, max any int", "GetSuggestions", panic_freedom=True),
  H("C10", DB, "Query2", "both", ["returned"], "query = 2 arbitrary bytes; limit, term cap, threshold any int; pipeline boost any float64", "SearchUniversal total", panic_freedom=True),
  H("C10", DB, "Query2NLP", "both", ["returned"], "same with UseNLP", "same", panic_freedom=True),
  H("C10", DB, "LongQueryCap", "both", ["returned"], "3 queries of 5-12 words; term cap any int; NLP on/off", "term selection never slices out of range"),
  H("C10", DB, "Query3", "thorough", ["returned"], "3 arbitrary bytes", "same", panic_freedom=True),
  H("C10", DB, "EmptyFields", "both", ["returned"], "entries with empty / blank command, description, keyword, tag; 5 queries; NLP / fuzzy symbolic; 4 entry points", "well-formed entries with missing fields never crash a search", panic_freedom=True),
  H("C10", DB, "Tokenize3", "both", ["returned"], "tokeniser on 3 arbitrary bytes", "tokeniser total, token invariants"),
  H("C10", DB, "Tokenize4", "thorough", ["returned"], "4 arbitrary bytes", "same"),
  H("C10", DB, "Legacy", "thorough", ["returned"], "4 legacy entry points, arbitrary option values, 2 arbitrary query bytes", "legacy entry points total", panic_freedom=True),
  H("C10", "internal/recovery", "RecoveryBytes", "both", ["returned"], "3 arbitrary query bytes, limit any int", "recovery searches total", panic_freedom=True),
  H("C10", DB, "Load", "both", ["loaded", "not-found", "parse-error", "other-error"], "file missing / directory / damaged / list of 0..2 entries", "LoadDatabase error classification; recovery searches on arbitrary bytes"),
 ],
 "manifest": {"text": "Bounded symbolic execution with Go's run-time checks as obligations: arbitrary bytes in queries and command texts, arbitrary integers and floats in options; any feasible panic is returned with a concrete input and replayed natively.",
              "note": "Trusted: executor + intrinsics, z3, go/ssa; yaml / RE2 are not executed (stubs). Bounds: <=3-4 symbolic bytes per text, <=3 commands."},
})

SPECS.append({
 "property_id": "C16", "level": "model_checking",
 "explanation": "history.SearchHistory is executed symbolically: (1) any file content class (missing, empty, damaged, a document with arbitrary entries and an arbitrary 64-bit max_size) followed by the search command's load / add / save; (2) one AddEntry step from any valid state against a reference log, then a save / load round trip; (3) the recent / top / statistics views against direct recomputation.",
 "assumptions": ["encoding/json is not executed: MarshalIndent / Unmarshal are an identity round trip through the file-system model (assumed contract); a damaged file yields a decode error", "queries are 1-byte strings (the history only compares them for equality)", "symbolic monotonic clock for timestamps"],
 "stubs": ["file-system model, json stub", "time.Now symbolic clock", "sort.Slice swapper"],
 "outside_the_claim": ["JSON fidelity for arbitrary query strings", "logs longer than 3 stored entries (covered by the inductive step)"],
 "trusted_base": TB,
 "harnesses": [
  H("C16", "internal/history", "AnyFile", "both", ["recorded"], "5 file classes (incl. a well-formed document with a wrongly typed field: partial decode + error); 0..2 stored entries; max_size any int", "recording a search never crashes / never loses the search / respects a sane bound", synctest=True),
  H("C16", "internal/history", "Step2", "both", ["stepped", "roundtrip"], "max_size 1..2, 0..max stored entries, one AddEntry, save+load", "reference-log step + round trip", synctest=True),
  H("C16", "internal/history", "Step3", "thorough", ["stepped", "roundtrip"], "max_size 1..3", "same", synctest=True),
  H("C16", "internal/history", "Views2", "both", ["views"], "0..2 entries, limit 0..n+1", "recent / top / stats agree with the entries", synctest=True),
  H("C16", "internal/history", "ReloadOther", "both", ["roundtrip"], "an instance holding 0-2 entries loads a file saved (or cleared) by another instance holding 0-2", "a loaded instance holds what the file holds (omitempty-style absent keys included)", synctest=True),
  H("C16", "internal/history", "CaseRepeat", "both", ["stepped"], "two consecutive searches whose queries are equal, or differ in letter case only", "only an identical query is an immediate repeat", synctest=True),
  H("C16", "internal/history", "ManyDistinct", "both", ["views"], "9-12 distinct queries", "views and statistics beyond any default limit", synctest=True),
  H("C16", "internal/history", "Views5", "both", ["views"], "4-5 entries over 3 concrete queries, limit 0..n+1", "non-adjacent repeats; distinct queries further back than the newest limit entries", synctest=True),
  H("C16", "internal/history", "Views3", "thorough", ["views"], "3 entries", "same", synctest=True),
 ],
 "manifest": {"text": "Bounded symbolic model checking of the history log: arbitrary file documents (max_size any integer), an inductive AddEntry step against a reference log, persistence round trip, and the derived views.",
              "note": "Trusted: executor, z3, JSON round-trip identity (stub), symbolic clock. Bounds: <=3 stored entries, 1-byte queries."},
})

SPECS.append({
 "property_id": "C09", "level": "model_checking",
 "reach_obligations": [
  {"pkg": "internal/cli", "root": "saveToPersonalDatabase", "must_not_reach": ["os.OpenFile", "os.WriteFile", "os.Create", "os.Truncate"], "except_through": ["utils.WriteFileAtomic"],
   "msg": "the notebook is written only through utils.WriteFileAtomic (the file-system model treats documents as opaque tokens, so an in-place append of serialised text cannot be explored; it is excluded structurally)"},
  {"pkg": "internal/history", "root": "(*SearchHistory).Save", "must_not_reach": ["os.OpenFile", "os.WriteFile", "os.Create", "os.Truncate"], "except_through": ["utils.WriteFileAtomic"],
   "msg": "the history file is written only through utils.WriteFileAtomic"},
 ],
 "explanation": "The crash point is a solver variable: the engine's file-system model lets the next write stop after k bytes (k any non-negative integer) either by returning an error (disk full, quota) or by killing the process; rename is atomic. After the event the live file is loaded through the real loaders and must hold exactly the previous or exactly the new entries; a save that reports success must have taken effect. Counterexamples are replayed natively with RLIMIT_FSIZE cutting the real write.",
 "assumptions": ["file-system model: while the fault lasts no file can grow beyond k bytes (any k >= 0), a cut write leaves the prefix and either returns an error or kills the process; os.Rename within a directory is atomic; os.OpenFile / (*os.File).Write honour O_TRUNC / O_APPEND / O_EXCL; a torn or mixed document does not decode to the old or new content", "yaml / json encoders are opaque documents (round-trip identity)"],
 "stubs": ["file-system model with write plans", "yaml / json stubs"],
 "outside_the_claim": ["power loss / fsync durability", "faults on the directory creation or rename steps themselves"],
 "trusted_base": TB + ["the file-system model (written from POSIX write/rename semantics)"],
 "harnesses": [
  H("C09", "internal/history", "HistorySave", "both", ["completed", "interrupted"], "k any int >= 0; event: error or kill", "history update made by every search"),
  H("C09", "internal/history", "HistoryClear", "both", ["completed", "interrupted"], "same", "Clear"),
  H("C09", "internal/history", "HistoryThenClear", "both", ["completed", "interrupted"], "interrupted save, then an undisturbed shorter save (Clear)", "nothing of an interrupted write leaks into a later one"),
  H("C09", "internal/utils", "AtomicHelper", "both", ["done", "interrupted"], "old / new1 / new2 contents of 0-4 symbolic bytes; k any int >= 0; error or kill; then an undisturbed second replacement", "the shared atomic-write helper on arbitrary contents"),
  H("C09", "internal/cli", "Notebook", "both", ["completed", "interrupted"], "same; notebook with 2 entries + 1 new", "saveToPersonalDatabase (both save commands write through it)"),
 ],
 "manifest": {"text": "Bounded symbolic fault injection: the byte offset at which a write stops is a solver variable in a file-system model; old-or-new atomicity is asserted through the real loaders and counterexamples are replayed with a real file-size limit.",
              "note": "Trusted: executor, z3, the file-system model (prefix writes, atomic rename), decoder stubs. The claim is about the code's use of the OS API, not the kernel."},
})

SPECS.append({
 "property_id": "C08", "level": "model_checking",
 "explanation": "Kernel only: the read-modify-write step of saveToPersonalDatabase from an arbitrary notebook (missing, or 0..3 entries with symbolic fields, possibly duplicate command strings) with a symbolic new entry, observed by re-loading the file through the real LoadDatabase: the new entry is stored with exactly its fields, every other entry keeps value and position, an existing command string is replaced in place. YAML fidelity for arbitrary strings and the start-up of the `save` sub-commands (cobra flag registration) are outside the technique.",
 "assumptions": ["yaml.Marshal / Unmarshal are an identity round trip (assumed; the real encoder is not executed)", "entry fields are 1-letter strings (the save logic only compares the command string for equality)"],
 "stubs": ["file-system model", "yaml stub"],
 "outside_the_claim": ["YAML round-trip of arbitrary text (leading '-', ': ', '#', multi-line, invalid UTF-8)", "the `wtf save` / `save-pipeline` processes starting at all (the '-p' shorthand collision panics inside cobra before the handler runs: observed on the real binary, not decidable by this technique)", "merge of main and notebook entries (checked in C15's 'real database' clause)"],
 "trusted_base": TB,
 "harnesses": [
  H("C08", "internal/cli", "Save2", "both", ["saved"], "notebook missing or 0..2 symbolic entries; symbolic new entry", "replace-or-append, neighbours preserved, fields stored exactly"),
  H("C08", DB, "Merge", "both", ["merged", "searched"], "main file with 2 entries, notebook missing or 0-2 entries; command strings over a 2-letter alphabet (collisions with main / each other)", "searched database = main ++ notebook; a saved command is found by its words"),
  H("C08", "internal/cli", "SavePipelineHandler", "both", ["saved"], "the save-pipeline handler called directly (3 command texts, with / without a pipe; category / description flags set or not), empty notebook", "entry built by the handler: command, description, category, pipeline flag"),
  H("C08", "internal/cli", "SaveHandler", "both", ["saved"], "the save handler called directly (category / pipeline flags set or not, two keywords)", "entry built by the handler"),
  H("C08", "internal/cli", "Save3", "thorough", ["saved"], "0..3 entries", "same"),
 ],
 "manifest": {"text": "Bounded symbolic model checking of the notebook's read-modify-write kernel under an assumed YAML round trip; the process-level parts of the property (cobra start-up, real YAML fidelity) are stated as outside the claim.",
              "note": "Trusted: executor, z3, YAML round-trip identity (stub). Partial claim: kernel only, see outside_the_claim."},
})

SPECS.append({
 "property_id": "C15", "level": "model_checking",
 "explanation": "LoadDatabaseWithFallback with the real retry loop, classifier, error wrapping and fallback ladder is executed symbolically against the file-system model: the state of the main, personal and backup files (healthy with 0..2 entries, missing, a directory, damaged, permission denied, I/O error for the first t attempts) and the retry configuration are chosen by the solver / bounded forks. The result must be a database and no error, the real entries (main then notebook) whenever they load, a non-empty fallback otherwise, searchable; a missing or unreadable file is read once; waits are bounded and non-decreasing. The attempt count is observed through the stub's read counter and, natively, through a testing/synctest fake clock.",
 "assumptions": ["file faults are injected at os.ReadFile; yaml decode = error for damaged content, identity for documents", "retry delays: quick tier uses the shipped configuration; the delay harness uses symbolic base / max delays in [1ns, 2^40ns] with factor 2", "math.Pow evaluated natively for the concrete factor"],
 "stubs": ["file-system model with per-read fault queues", "yaml stub", "time.Sleep advances the symbolic clock"],
 "outside_the_claim": ["BackoffFactor other than 2.0", "faults other than open/read errors"],
 "trusted_base": TB,
 "harnesses": [
  H("C15", "internal/recovery", "Ladder", "both", ["loaded", "real", "fallback", "tried-once"], "6 main-file states x 4 notebook states x backup present/absent x attempts 1..3 x transient fault length", "usable database, right entries, no futile retries", synctest=True),
  H("C15", "internal/recovery", "LadderDelays", "thorough", ["loaded"], "symbolic base / max delay", "waits bounded by the maximum and non-decreasing", synctest=True),
  H("C15", "internal/recovery", "LadderGrid", "both", ["loaded"], "back-off factor from {1,1.5,2,1e3,1e6,1e9}, first wait from {1ns,100ms,2^40ns}, cap from {1ns,5s,2^40ns}, 1-4 attempts", "waits bounded and non-decreasing when the product leaves the int64 range", synctest=True),
  H("C15", "internal/recovery", "LadderFactor", "thorough", ["loaded"], "symbolic back-off factor in [1,1e9], symbolic base / max delay, 1-3 attempts, damaged main file", "waits bounded and non-decreasing for any factor (math.Pow uninterpreted with monotonicity axioms)", synctest=True),
  H("C15", "internal/recovery", "Ladder4", "thorough", ["loaded", "real", "fallback", "tried-once"], "attempts 1..4, 6 notebook states", "same", synctest=True),
 ],
 "manifest": {"text": "Bounded symbolic model checking of the loader's retry / fallback ladder over a file-system fault model; fault kinds, transient-fault length and retry configuration are explored exhaustively within the bound, delays symbolically.",
              "note": "Trusted: executor, z3/cvc5, file-system fault model, decoder stub. Bounds: attempts <= 4, <= 2 entries per file."},
})

SPECS.append({
 "property_id": "C20", "level": "model_checking",
 "explanation": "Relational (two-run) symbolic execution: q is a vector of symbolic lower-case letters and q' flips the case of every letter according to symbolic mask bits, so one unsat covers every re-spelling. Compared stage by stage (index/query tokeniser, NLP analysis fields, expanded term list) and end to end through SearchUniversal on the lexical, NLP and typo-fallback paths (commands and scores position by position). CLI whitespace: ValidateQuery of a query padded with symbolic ASCII whitespace equals ValidateQuery of the plain spelling.",
 "assumptions": ["ASCII letters only (code points whose lower-casing is irregular are excluded by the property itself; the bound is tightened to < 0x80)", "queries of 2-5 bytes (at most one inner space)", "the CLI searches with the validated string (process-level printing is C17's)"],
 "stubs": ["regexp ASCII-class stub", "strings.ToLower intrinsic (exact for ASCII, real body otherwise)"],
 "outside_the_claim": ["non-ASCII letters", "queries longer than 5 bytes", "the cached path's key normalisation (C05)"],
 "trusted_base": TB,
 "harnesses": [
  H("C20", DB, "Stages3", "both", ["stages"], "3 letters, every case mask", "tokeniser + NLP analysis + expansion agree"),
  H("C20", DB, "Stages4", "both", ["stages"], "4 letters", "same (4-letter action / target words)"),
  H("C20", DB, "Stages5", "thorough", ["stages"], "2 letters, space, 2 letters", "same"),
  H("C20", DB, "EndToEnd2", "both", ["compared", "nonempty"], "2 letters; lexical + fuzzy fallback", "same ranked answer"),
  H("C20", DB, "EndToEnd2NLP", "both", ["compared", "nonempty"], "2 letters; NLP + fuzzy", "same ranked answer"),
  H("C20", DB, "EndToEnd3", "thorough", ["compared", "nonempty"], "3 letters", "same"),
  H("C20", DB, "EndToEnd5NLP", "thorough", ["compared", "nonempty"], "2+2 letters, NLP", "same"),
  H("C20", DB, "Sentence", "both", ["stages"], "2 sentences of 28-35 letters with context clues, every case mask (one mask bit per letter)", "context-clue detection ignores case"),
  H("C20", DB, "StopWords", "both", ["compared", "nonempty"], "command texts with capitalised stop words; 2 sentences, every case mask; NLP re-ranking", "TF-IDF side ignores case"),
  H("C20", "internal/recovery", "Recovery", "both", ["compared", "nonempty"], "3 queries through the CLI's last-resort search, one case-mask bit per letter", "recovery search ignores case"),
  H("C20", "internal/validation", "WhitespaceUnicode", "both", ["compared"], "two 1-byte words; leading / interior / trailing runs from 7 white-space strings incl. U+00A0, U+3000, U+2003", "Unicode white space is white space"),
  H("C20", "internal/validation", "Whitespace", "both", ["compared"], "two words of printable non-meta ASCII; pads of 0-2 symbolic whitespace bytes", "padding never changes the searched query"),
 ],
 "manifest": {"text": "Relational bounded symbolic model checking: the query and an arbitrary case re-spelling share one symbolic byte vector (mask bits), compared at every consumer of the query and end to end.",
              "note": "Trusted: executor + intrinsics, z3, go/ssa. Bounds: ASCII, <=5 query bytes, 7-command database."},
})

SPECS.append({
 "property_id": "C02", "level": "model_checking",
 "explanation": "The Go runtime's map iteration order is the quantified variable: after verifMapOrder(k) the executor forks every `range` over a map with 2..k entries over all k! orders. Each harness runs the function twice in one path (self-composition, independent orders) - repeated calls, independently built databases / TF-IDF models, suggestions - and requires position-wise identical commands and bit-identical scores. Counterexamples are replayed natively by repeating the call until the real runtime exhibits two outcomes.",
 "assumptions": ["maps with more than k entries (k = 3 or 4) are ranged in insertion order (counted in evidence as map_ranges_in_insertion_order)", "'separate processes' is covered through the argument that map order and time are the only cross-process sources of variation in this code; time does not enter ranking"],
 "stubs": ["map-order forks in the executor's map model", "regexp stub, sort swappers (sort.Stable / SliceStable algorithms run from SSA)"],
 "outside_the_claim": ["maps larger than the fork bound", "databases beyond 3-5 entries"],
 "trusted_base": TB,
 "harnesses": [
  H("C02", DB, "Ties3", "both", ["compared", "nonempty"], "3 commands (2 identical), symbolic query word, limit 1..2, maps <=3 entries in all orders", "repeated SearchUniversal"),
  H("C02", DB, "Ties3NLP", "both", ["compared", "nonempty"], "same with UseNLP", "repeated SearchUniversal (NLP)"),
  H("C02", DB, "ThreeTerms", "both", ["compared", "nonempty"], "3 commands (2 matching), 3-4 word queries whose words all hit one command; second run with maps <= 3 entries in every order", "three-term score sums independent of any map order", maporder=3),
  H("C02", DB, "RepeatUnfilled", "both", ["compared", "nonempty"], "3 commands handed over as a plain list (cached lower-case fields empty), 3 NLP queries whose action and target co-occur, asked twice", "no engine-owned state filled by the first call changes the second"),
  H("C02", DB, "Ties5", "thorough", ["compared", "nonempty"], "5 commands, maps <=4 entries", "repeated SearchUniversal"),
  H("C02", DB, "Reload", "both", ["compared"], "two independently built databases, NLP on", "re-loading the same content"),
  H("C02", DB, "Suggestions", "both", ["compared"], "3-word candidate set, all orders", "did-you-mean reproducibility"),
  H("C02", "internal/nlp", "TFIDFSearch", "both", ["compared"], "one model, 4 queries (3-4 distinct vocabulary terms), query-side and dot-product maps <=3 entries in all orders", "repeated TF-IDF search bit-identical"),
  H("C02", "internal/nlp", "TFIDF", "both", ["compared"], "3 documents, three-term float sums; the second model is built with every map walked forwards or backwards (independently per range)", "norms / similarities bit-identical for independently built models"),
 ],
 "manifest": {"text": "Self-composed bounded model checking with the runtime's map iteration order as the explored nondeterminism (all permutations for maps up to k entries); outputs of two runs must coincide position by position and bit by bit.",
              "note": "Trusted: executor's map model, z3, go/ssa. Bounds: maps <= 3-4 entries are permuted; larger ones use insertion order (reported)."},
})

SPECS.append({
 "property_id": "C05", "level": "model_checking",
 "explanation": "Histories through the real caching (and monitoring) wrapper, the real SearchCache / LRU and the real engine: after every search the answer is compared with an uncached SearchUniversal of the current database at that moment. Delta harness: two requests whose options differ in exactly one field (each field in turn, flags symbolic) and whose queries are case / padding variants. History harnesses: search, arbitrary operation (invalidate, disable, enable, expiry sweep with a symbolic clock advance, database replacement), search.",
 "assumptions": ["cache key: json.Marshal is replaced by an injective canonical rendering of the concrete key struct, sha256 is computed natively, fmt.Sprintf is a deterministic function of its operands", "queries from {aa, AA, ' aa', 'aa cc', zz, ab}; option values from small sets"],
 "stubs": ["json.Marshal (canonical rendering), sha256 (native), fmt.Sprintf (deterministic opaque)", "symbolic monotonic clock", "sync primitives as sequential state machines"],
 "outside_the_claim": ["histories longer than 4 steps", "hash collisions of SHA-256"],
 "trusted_base": TB,
 "harnesses": [
  H("C05", DB, "Delta", "both", ["searched", "done"], "2 requests; 6 symbolic flags x 2 limits; 14 one-field deltas (incl. pipeline boost, fuzzy threshold, boost values); 4x4 query variants", "requests that differ in anything that changes the answer never share an entry", synctest=True),
  H("C05", DB, "PairsMonitored", "both", ["searched", "done"], "2 requests through the monitoring wrapper; 6 option sets x 5 queries each", "monitored wrapper's own projection", synctest=True),
  H("C05", DB, "MonitoredReload", "both", ["searched", "done"], "search (3 entry points); replace through LoadDatabaseWithMonitoring or UpdateDatabase; search", "no cached answer survives a replacement made through the monitoring entry point", synctest=True),
  H("C05", "internal/cache", "SmallCache", "both", ["hit", "miss", "done"], "SearchCache of capacity 1-2; 5 steps of put / get over 3 requests", "an answer found is the one last stored for that very request (eviction churn)"),
  H("C05", DB, "KeyGrid", "both", ["searched", "done"], "two requests; limit in {1,10,101} x threshold in {0,1,-30} x term cap in {0,2,12} each", "integer option fields are kept apart in the key", synctest=True),
  H("C05", "internal/cache", "LongAnswer", "both", ["done"], "answers of 1 / 99 / 100 / 101 / 150 results", "cached answers come back whole"),
  H("C05", DB, "OffOn", "both", ["searched", "done"], "search; optionally disable; replace / invalidate / nothing; optionally search while off; enable; search", "no entry outlives a replacement made while the cache is off (also C01 on the cached path)", synctest=True),
  H("C05", DB, "Hist3", "thorough", ["searched", "done"], "search, one of 6 operations, search", "no entry outlives invalidation / replacement; disabled cache is bypassed", synctest=True),
 ],
 "manifest": {"text": "Bounded model checking of histories through the real caching layer against the real uncached engine as oracle at every step.",
              "note": "Trusted: executor, z3, injective key rendering (stub for json.Marshal), native sha256. Bounds: <=4 steps, small query / option sets."},
})

SPECS.append({
 "property_id": "C11", "level": "other",
 "explanation": "Sufficient condition checked on every symbolic path of every public method of the shared objects; no goroutine is run and no interleaving is enumerated. (1) Lock discipline: the executor tracks which mutex is held in which mode; every store to a cell (field, slice element, list element, map content) of LRUCache / Histogram / Collector needs the object's mutex in write mode, every load needs it in either mode unless no path of the harness stores to that field (cross-path obligation); every path releases what it took. (2) Read-only search: after the indexes are built, SearchUniversal / GetSuggestions with symbolic query and options perform no store and no map update on anything reachable from the database or from the module's package-level variables; the cached / monitored search only changes lock-guarded or atomically updated state. (3) Counter and Gauge values are touched only through sync/atomic. Race freedom follows by the lockset argument, linearizability of the LRU from 'every method is one write-mode critical section' with C12 as the sequential specification, 'answers as if alone' from (2) with C02.",
 "assumptions": ["sync.Mutex / RWMutex and sync/atomic behave as documented (modelled as sequential state machines)", "SearchCache.enabled / Manager.enabled are plain fields written only by Enable, which is not among the concurrent operations of the property (not exercised)", "the lockset => race-freedom and mutual-exclusion => linearizability arguments are stated, not mechanised"],
 "stubs": ["sync primitives (lock-state tracking)", "time.Now symbolic clock", "regexp stub"],
 "outside_the_claim": ["actual schedules / the Go race detector (a different technique)", "the lazy index rebuild racing with a concurrent growth of Commands (the database is assumed loaded)"],
 "trusted_base": TB + ["the lockset argument"],
 "harnesses": [
  H("C11", "internal/cache", "LRU", "both", ["called"], "capacity 2, 0-2 resident entries, each of the 9 public methods, symbolic key / ttl / clock", "lock discipline of the LRU", synctest=True, panic_freedom=True),
  H("C11", "internal/cache", "SearchCache", "both", ["called"], "7 operations of the search cache", "lock discipline through the search cache", synctest=True, panic_freedom=True),
  H("C11", "internal/metrics", "Histogram", "both", ["called"], "5 methods", "mutex-guarded histogram", panic_freedom=True),
  H("C11", "internal/metrics", "Counter", "both", ["called"], "8 methods of Counter / Gauge", "atomic-only accounting", panic_freedom=True),
  H("C11", "internal/metrics", "Collector", "both", ["called"], "get-or-create of 4 metric kinds, GetAllMetrics", "double-checked registry under the RWMutex", panic_freedom=True),
  H("C11", DB, "ReadOnlySearch", "both", ["searched"], "7-command database, symbolic query word, limit 1..3, fuzzy / platform flags symbolic", "search writes nothing that existed before the call", panic_freedom=True),
  H("C11", DB, "ReadOnlySearchNLP", "both", ["searched"], "same with UseNLP", "same", panic_freedom=True),
  H("C11", DB, "CachedSearch", "both", ["searched"], "cached + monitored search / invalidate / sweep / stats", "only guarded or atomic state changes", panic_freedom=True, synctest=True),
 ],
 "manifest": {"text": "Path-sensitive lockset and write-set obligations decided by symbolic execution of every public method (a sufficient condition for the property, not a schedule exploration).",
              "note": "Trusted: executor's lock model, z3, the lockset => race-freedom argument. No interleaving is enumerated.",
              "technique": "symbolic execution of the real code (go/ssa + SMT path feasibility) with lock-state and write-set tracking; obligations per memory access"},
})

SPECS.append({
 "property_id": "C18", "level": "model_checking",
 "explanation": "Series identity under every iteration order of the tag map (executor forks all orders of maps up to 3 entries; tag keys and values symbolic); counter arithmetic with symbolic 64-bit addends; histogram count / exact sum / bucket accounting with symbolic IEEE observations and monotone percentiles for symbolic 0 <= p1 <= p2 <= 100; monitor totals over symbolic cache-hit / success flags.",
 "assumptions": ["observations finite in [-1e9, 1e9]", "percentiles in [0,100]", "concurrency clauses are C11's obligations"],
 "stubs": ["map-order forks", "sync / atomic sequential models", "fmt.Sprintf exact for concrete operands"],
 "outside_the_claim": ["more than 3 tags", "more than 3 observations"],
 "trusted_base": TB,
 "harnesses": [
  H("C18", "internal/metrics", "Identity1", "both", ["identity"], "1 symbolic tag", "same identity => same metric"),
  H("C18", "internal/metrics", "Identity2", "both", ["identity"], "2 symbolic tags, every map order", "same"),
  H("C18", "internal/metrics", "Identity3", "thorough", ["identity"], "3 symbolic tags, every map order", "same"),
  H("C18", "internal/metrics", "Counter", "both", ["counted"], "0-4 Inc / Add(v), v any int64", "value equals the sum (wrap-around arithmetic)"),
  H("C18", "internal/metrics", "Monitor", "both", ["monitored"], "0-2 searches, 0-2 database operations, flags symbolic", "totals equal events"),
  H("C18", "internal/metrics", "Monitor3", "thorough", ["monitored"], "3 + 3 events", "same"),
  H("C18", "internal/metrics", "MonitorSameIdentity", "both", ["monitored"], "same (operation, success) twice, every tag order", "one identity, one series"),
  H("C18", DB, "MonitoredSearches", "both", ["monitored"], "1-3 searches through either monitored entry point, 3 queries (repeats hit the cache)", "search total = number of searches", synctest=True),
  H("C18", "internal/metrics", "CollectorLocks", "both", ["called"], "get-or-create of 4 metric kinds, GetAllMetrics; one call from an arbitrary warm / cold registry", "lock discipline of the registry (get-or-create re-validates under the write lock): obligation for every schedule, no native replay", panic_freedom=True),
  H("C18", "internal/metrics", "CounterAtomic", "both", ["called"], "8 methods of Counter / Gauge", "counter words touched only through sync/atomic", panic_freedom=True),
  H("C18", "internal/metrics", "HistogramLocks", "both", ["called"], "5 methods", "histogram fields only under its mutex", panic_freedom=True),
  H("C18", "internal/metrics", "Identity3C", "both", ["identity"], "three concrete tags, every order of the tag map", "same identity => same metric"),
  H("C18", "internal/metrics", "Overflow", "both", ["observed"], "1-3 observations from {5, 10000, 10001, 1e9}", "observations beyond the last bucket bound are counted"),
  H("C18", "internal/metrics", "PercentileGrid", "both", ["observed"], "1-3 observations into chosen buckets; percentile grid 0..100 incl. end points", "monotone percentiles on the grid"),
  H("C18", "internal/metrics", "Histogram1", "thorough", ["observed"], "0-1 symbolic observation, default buckets, symbolic percentiles", "count / sum / buckets / monotone percentiles", timeout_ms=600000),
  H("C18", "internal/metrics", "Histogram2B", "thorough", ["observed"], "1-2 observations, 3 symbolic ascending buckets", "same", timeout_ms=600000),
 ],
 "manifest": {"text": "Bounded symbolic model checking with the tag map's iteration order as explored nondeterminism and counter / histogram operands as solver variables.",
              "note": "Trusted: executor, z3/cvc5, go/ssa. Bounds: <=3 tags, <=3 observations; histogram obligations are floating-point (cvc5) and run in the thorough tier."},
})

SPECS.append({
 "property_id": "C19", "level": "model_checking",
 "explanation": "Loaders: the file is a vector of symbolic bytes behind the engine's os.Open / bufio / encoding/binary execution; a load either fails or returns an index, never panics, and every allocation whose size is a function of file content is bounded by a constant plus the file length (obligation posed at every make with a symbolic size; counterexamples replayed natively under an address-space limit with a TotalAlloc oracle). Semantic stage: with no index, or an index that has no vector for the query, SearchUniversal is unchanged. Cosine: symmetric bit for bit (dimension 1-3, symbolic float32 components) and 0 for empty / zero / mismatched vectors; its range [-1, 1] is decided on domains the FP solver finishes (2-dimensional small-integer vectors, cvc5; grid of ordinary and special IEEE values with symbolic choices).",
 "assumptions": ["file length <= 12 bytes; the 16-bit word-length field is assumed <= 16 (the executor enumerates slice lengths)", "components finite in [-1e6, 1e6]", "Float64bits of a symbolic float is an uninterpreted function of the float term (sufficient for bit-identity of two computations)"],
 "stubs": ["file-system model: os.Open / (*os.File).Read", "bufio and encoding/binary run from SSA"],
 "outside_the_claim": ["|cosine| <= 1 for arbitrary float32 components and the stage's bounded-factor clause for symbolic vectors: floating-point division and square roots over full-width inputs put these beyond cvc5 / z3 here (unknown after 60 s and 900 s per query). Decided only for components that are integers 0..15 (dimension 2) and for the value grids of CosineGrid / StageSpecial.", "successful loads of real-size files (400-byte records)"],
 "trusted_base": TB,
 "harnesses": [
  H("C19", "internal/embedding", "CosineSym1", "both", ["cosine"], "dimension 1", "symmetry (branches on the quotient are explored both ways without asking the FP solver)", fork_hard_fp=True),
  H("C19", "internal/embedding", "CosineSym2", "both", ["cosine"], "dimension 2", "symmetry (branches on the quotient are explored both ways without asking the FP solver)", fork_hard_fp=True),
  H("C19", "internal/embedding", "CosineSym3", "both", ["cosine"], "dimension 3", "symmetry (branches on the quotient are explored both ways without asking the FP solver)", fork_hard_fp=True),
  H("C19", "internal/embedding", "CosineGrid", "both", ["cosine"], "dimension 2; components from {0,1,-1,2,3,9,15,1e-30,3e38,NaN,+Inf}; second vector equal or from {0,1,-2,3e38}", "a number in [-1,1], symmetric, 0 with a zero vector"),
  H("C19", "internal/embedding", "CosineSmall2", "thorough", ["cosine"], "dimension 2; components symbolic integers 0..15; second vector equal or independent", "|cos| <= 1 decided by cvc5 through sqrt and division (found a = b = (15, 9) -> 1.0000000000000002)", fp_timeout_ms=300000),
  H("C19", "internal/embedding", "CosineShapes", "both", ["cosine"], "empty, mismatched, zero vectors", "zero cases"),
  H("C19", "internal/embedding", "LoadWords4", "both", ["rejected"], "word-vector file of 0-4 symbolic bytes", "no panic, bounded allocation"),
  H("C19", "internal/embedding", "LoadWords8", "both", ["rejected"], "5-8 symbolic bytes; word-length field <= 16, or 129 / 300 / 65535", "same"),
  H("C19", "internal/embedding", "LoadCmds8", "both", ["rejected", "loaded"], "command-embedding file of 0-8 symbolic bytes", "same"),
  H("C19", "internal/embedding", "LoadCmds12", "both", ["rejected"], "12 symbolic bytes", "same"),
  H("C19", "internal/embedding", "LoadMissing", "both", ["rejected"], "missing files", "errors, not crashes"),
  H("C19", DB, "StageSpecial", "both", ["boosted"], "1-dimensional vectors drawn from {1,-1,0,0.5,NaN,+Inf,3e38}; 3 results", "NaN / infinite embedding values never corrupt scores or order"),
  H("C19", DB, "Absent", "both", ["boosted"], "no index / index without vectors for the query; symbolic query", "feature strictly optional"),
 ],
 "manifest": {"text": "Bounded symbolic execution of the binary loaders over symbolic file bytes with an allocation-size obligation at every input-sized make; relational check that the semantic stage is inert without data; syntactic (hash-consed) bit-symmetry of cosine.",
              "note": "Trusted: executor, z3/cvc5, file model. Partial claim: the cosine range and bounded-factor clauses are outside (FP div/sqrt beyond solver reach here)."},
})

SPECS.append({
 "property_id": "C17", "level": "model_checking",
 "explanation": "The command tree is executed in-process through rootCmd.Execute(): cobra's dispatch, pflag's parsing, the persistent-flag merge and every handler run from source inside the executor, with argv, the environment (NO_COLOR), the home directory, the database file (--database) and the history file as inputs of the file-system / environment model; standard output is captured (exact for concrete operands). Decided: no sub-command panics for the generated argument vectors; for the search command the printed rows (list and table formats) are exactly the engine's results for the same database and options, in rank order and never more than the limit in force; no escape sequence with --no-color / NO_COLOR; exactly one history entry corresponding to the search. Counterexamples are replayed natively by calling rootCmd.Execute() in a test of package cli with HOME pointing at a scratch directory.",
 "assumptions": ["argument vectors from a generated family (12 command shapes x database / verbose flags; search: 3 queries x 5 limits x 3 formats x 3 colour settings x verbose x explicit `search`)", "database: 5 commands in a --database file; built-in fallback otherwise", "package init functions (flag registration) are executed as in the real program"],
 "stubs": ["file-system model, yaml / json document stubs", "fmt.Printf / Println captured (exact for concrete operands)", "os.LookupEnv / os.Getenv model", "symbolic clock"],
 "outside_the_claim": ["the OS process boundary: shell quoting, exit codes, real stdout / stderr separation", "--format json: the bytes written by encoding/json's Encoder (well-formedness of the JSON text)", "wizard and setup / alias add / remove sub-commands (interactive input, shell rc files)", "arguments outside the generated family", "the shipped 6,619-entry database"],
 "trusted_base": TB + ["the file-system / environment model"],
 "harnesses": [
  H("C17", "internal/cli", "Subcommands", "both", ["ran"], "12 argv shapes (search / default / save / save-pipeline / pipeline / history / alias list / usage errors) x --database x --verbose; 4 queries", "no sub-command crashes", synctest=True),
  H("C17", "internal/cli", "SearchOutput", "both", ["searched", "nonempty"], "3 queries x limit {unset,1,2,3,100} x format {unset,list,table} x colour {on,--no-color,NO_COLOR} x verbose x explicit `search`", "printed rows = engine results, in order, <= limit; no escapes when colour is off; one history entry", synctest=True),
 ],
 "manifest": {"text": "Bounded symbolic execution of the whole in-process command tree (rootCmd.Execute: cobra, pflag and the handlers run from source) over a generated family of argument vectors, flags and environments, with captured standard output and a modelled home directory.",
              "note": "Partial: everything up to the process boundary. Not decided: JSON bytes of --format json, exit codes, interactive sub-commands. Found the start-up panic of `wtf save` / `save-pipeline` (fixed, 1ae509c).",
              "design": "DESIGN.md §5 C17"},
})
