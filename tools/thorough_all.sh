#!/bin/sh
export VERIF_DIR=$PWD
cd engine && GOTOOLCHAIN=local GOFLAGS=-mod=mod GOPROXY=off PATH=/opt/veriftools/go1.26.8/bin:$PATH go1.26.8 build -o ../bin/check ./cmd/check && cd ..
for id in ${THOROUGH_IDS:-C14 C12 C16 C09 C08 C15 C04 C02 C06 C20 C01 C03 C05 C07 C10 C11 C18 C19 C13 C17}; do
  start=$(date +%s)
  timeout 5400 ./bin/check $id --tier thorough > out_$id.txt 2>&1
  echo "$id exit=$? secs=$(( $(date +%s) - start )) $(tail -1 out_$id.txt | cut -c1-200)"
done
