#!/bin/bash
# try_seed.sh <seed-id> <check-id> [extra check args]: runs a check against a scratch worktree of /repo with the seeded change applied
SID=$1; ID=$2; shift 2
WT=/tmp/wt/try_$SID; EV=/tmp/wt/try_ev_$SID
[ -d $WT ] || git -C /repo worktree add -q --detach $WT HEAD
git -C $WT checkout -q -- . ; git -C $WT clean -fdq
git -C $WT apply /verif/seeded/$SID/patch.diff || exit 3
mkdir -p $EV; rsync -a --delete /verif/checks /verif/harness /verif/known_findings.json $EV/
VERIF_DIR=$EV /verif/bin/check $ID --tier quick --repo $WT "$@"; RC=$?
git -C /repo worktree remove --force $WT; rm -rf $EV
exit $RC
