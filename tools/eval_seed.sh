#!/bin/bash
# eval_seed.sh <out-dir e.g. /tmp/wt/out/C01/A> <seed-id e.g. C01-A> <tier> <check ids...>
# 1. confirms the seeded change in a scratch worktree (build, full suite, demo fails with / passes without)
# 2. applies it to /repo, runs the named checks, undoes it
# 3. stores it under /verif/seeded/<seed-id>/
set -u
SRC=$1; SID=$2; TIER=$3; shift 3
WT=/tmp/wt/verify_$SID
export GOFLAGS=-mod=mod GOPROXY=off
unset GOTOOLCHAIN
[ -d $WT ] || git -C /repo worktree add -q --detach $WT HEAD
git -C $WT checkout -q --detach $(git -C /repo rev-parse HEAD) 2>/dev/null
git -C $WT checkout -q -- . ; git -C $WT clean -fdq
DEMO=$(ls $SRC/demo_test.go $SRC/demo_main.go 2>/dev/null | head -1)
PLACE=$(head -1 "$DEMO" | sed -n 's#^// place in: *##p' | tr -d '\r')
[ -z "$PLACE" ] && { echo "no place-in line in $DEMO"; exit 3; }
DNAME=zz_demo_$(echo $SID | tr 'A-Z-' 'a-z_')_test.go
res() { echo "$SID: $*"; }
# (i) patch applies, builds, suite passes
if ! git -C $WT apply $SRC/patch.diff 2>/tmp/apply_err.txt; then res "PATCH DOES NOT APPLY: $(head -2 /tmp/apply_err.txt)"; exit 3; fi
if ! (cd $WT && go build ./... 2>&1 | tail -3); then res "build failed"; fi
SUITE=$(cd $WT && go test -vet=off -count=1 ./... 2>&1 | grep -v "^ok" | grep -v "no test files" | head -5)
[ -n "$SUITE" ] && res "SUITE NOT GREEN with patch: $SUITE"
# (ii) demo fails with patch
mkdir -p $WT/$PLACE; cp "$DEMO" $WT/$PLACE/$DNAME
WITH=$(cd $WT && timeout 600 go test -vet=off -count=1 -run . ./$PLACE 2>&1 | tail -3 | tr '\n' ' ')
# (iii) demo passes without patch
git -C $WT apply -R $SRC/patch.diff
WITHOUT=$(cd $WT && timeout 600 go test -vet=off -count=1 -run . ./$PLACE 2>&1 | tail -2 | tr '\n' ' ')
git -C $WT checkout -q -- . ; git -C $WT clean -fdq
case "$WITH" in *FAIL*) W1=fails;; *) W1="DOES-NOT-FAIL";; esac
case "$WITHOUT" in *ok*) W2=passes;; *) W2="DOES-NOT-PASS";; esac
res "demo with patch: $W1 ; without: $W2 ; suite: ${SUITE:-green}"
# run the checks against a patched copy of the repository (scratch worktree), with a private
# VERIF_DIR so that evidence / replays of the unchanged tree are not overwritten and background
# runs that use /repo are not disturbed
git -C $WT apply $SRC/patch.diff || { res "cannot apply"; exit 3; }
EV=/tmp/wt/verif_eval_$SID; mkdir -p $EV
rsync -a --delete /verif/checks /verif/harness /verif/known_findings.json $EV/ 2>/dev/null
OUT=""
for id in "$@"; do
  T0=$(date +%s)
  VERIF_DIR=$EV timeout 3600 /verif/bin/check $id --tier $TIER --repo $WT > /tmp/seed_${SID}_$id.txt 2>&1; RC=$?
  V=$(grep -c "^VIOLATION" /tmp/seed_${SID}_$id.txt)
  I=$(grep -c "^INCONCLUSIVE" /tmp/seed_${SID}_$id.txt)
  OUT="$OUT $id:exit=$RC,violations=$V,inconclusive=$I,secs=$(( $(date +%s) - T0 ))"
done
git -C $WT checkout -q -- . ; git -C $WT clean -fdq
rm -rf $EV
res "checks ($TIER):$OUT"
D=/verif/seeded/$SID; mkdir -p $D
cp $SRC/patch.diff $D/patch.diff; cp "$DEMO" $D/$(basename $DEMO); [ -f $SRC/notes.md ] && cp $SRC/notes.md $D/notes.md
python3 - "$SID" "$W1" "$W2" "${SUITE:-green}" "$TIER" "$OUT" "$PLACE" <<'PY'
import json,sys,os
sid,w1,w2,suite,tier,out,place=sys.argv[1:8]
d=f'/verif/seeded/{sid}'
meta={}
if os.path.exists(d+'/meta.json'):
    meta=json.load(open(d+'/meta.json'))
meta.update({"seed_id":sid,"breaks_property":sid.split('-')[0],"demo_place_in":place,
  "confirmed":{"suite_with_patch":suite,"demo_with_patch":w1,"demo_without_patch":w2},
  "what_was_run":"tools/eval_seed.sh: git apply in a scratch worktree, go build ./..., go test -vet=off -count=1 ./..., demo with / without the patch; then the same patch applied to a scratch worktree of /repo's HEAD and `check <ids> --repo <worktree>` (equivalent to git -C /repo apply / checkout, used so that background runs on /repo are not disturbed)"})
meta.setdefault("check_results",{})[tier]=out.strip()
notes=d+'/notes.md'
if os.path.exists(notes):
    meta["needs_to_manifest_and_description"]=open(notes).read()[:1500]
json.dump(meta,open(d+'/meta.json','w'),indent=1)
PY
git -C /repo worktree remove --force $WT 2>/dev/null
