#!/usr/bin/env python3
"""Regenerates /verif/checks/<id>.json and the checks section of MANIFEST.json
from the declarative table in specs/*.py (kept in tools/specs_*.py)."""
import json, glob, os, importlib.util, sys

HERE = os.path.dirname(os.path.abspath(__file__))
TECH = ("bounded symbolic execution of the real code (go/ssa) with SMT-decided path feasibility and "
        "assertions (z3 / cvc5), counterexamples replayed natively")

def load(path):
    spec = importlib.util.spec_from_file_location("m", path)
    m = importlib.util.module_from_spec(spec); spec.loader.exec_module(m); return m

def main():
    specs = {}
    for f in sorted(glob.glob(os.path.join(HERE, "specs_*.py"))):
        m = load(f)
        for s in m.SPECS:
            specs[s["property_id"]] = s
    checks = []
    for pid, s in sorted(specs.items()):
        man = s.pop("manifest")
        json.dump(s, open(f"/verif/checks/{pid}.json", "w"), indent=1)
        checks.append({
            "property_id": pid,
            "quick_cmd": f"/verif/bin/check {pid} --tier quick",
            "thorough_cmd": f"/verif/bin/check {pid} --tier thorough",
            "evidence_file": f"/verif/evidence/{pid}.json",
            "replay_cmd_template": f"/verif/bin/check {pid} --replay {{path}}",
            "engine": "gosym",
            "level_claimed": {"category": s.get("level", "model_checking"), "text": man["text"], "design_ref": man.get("design", "DESIGN.md §4 " + pid)},
            "level_note": man["note"],
            "technique": man.get("technique", TECH),
        })
    m = json.load(open("/verif/MANIFEST.json"))
    m["checks"] = checks
    done = {c["property_id"] for c in checks}
    na = json.load(open(os.path.join(HERE, "not_applicable.json")))
    m["not_applicable"] = [x for x in na if x["property_id"] not in done]
    allids = [f"C{n:02d}" for n in range(1, 21)]
    listed = done | {x["property_id"] for x in m["not_applicable"]}
    for i in allids:
        if i not in listed:
            m["not_applicable"].append({"property_id": i, "reason": "check under construction in this session; see DESIGN.md"})
    m["engines"][0]["serves_properties"] = sorted(done)
    json.dump(m, open("/verif/MANIFEST.json", "w"), indent=1)
    print("wrote", len(checks), "checks;", len(m["not_applicable"]), "not applicable")

if __name__ == "__main__":
    main()
