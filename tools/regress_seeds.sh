#!/bin/bash
# regress_seeds.sh [jobs] [seed-id regex] [output file]  — re-runs, for every kept seeded change under /verif/seeded, the
# registered quick check of the property it breaks against a scratch worktree of /repo with the
# patch applied, and prints one line per seed: "<seed> <property> exit=<code>" (1 = reported).
# Scratch worktrees live under /tmp and are removed again; /repo itself is not touched.
set -u
JOBS=${1:-4}
FILTER=${2:-.}
OUT=${3:-/verif/seeded/REGRESSION.txt}
TMP=$(mktemp -d /tmp/verif-regress-XXXX)
export GOFLAGS=-mod=mod GOPROXY=off
one() {
  sid=$1; prop=${sid%%-*}; wt=$TMP/wt_$sid; ev=$TMP/ev_$sid
  if grep -q '"status": "neutralised"' /verif/seeded/$sid/meta.json 2>/dev/null; then
    echo "$sid $prop neutralised (no longer breaks the property on the current tree, see meta.json)"; return
  fi
  git -C /repo worktree add -q --detach $wt HEAD 2>/dev/null || { echo "$sid $prop exit=worktree-failed"; return; }
  if git -C $wt apply /verif/seeded/$sid/patch.diff 2>/dev/null; then
    mkdir -p $ev; rsync -a /verif/checks /verif/harness /verif/known_findings.json $ev/
    VERIF_DIR=$ev timeout 3600 /verif/bin/check $prop --tier quick --repo $wt > $TMP/out_$sid.txt 2>&1; rc=$?
    echo "$sid $prop exit=$rc $(grep -c '^VIOLATION' $TMP/out_$sid.txt) violation line(s)"
  else
    echo "$sid $prop exit=patch-does-not-apply"
  fi
  git -C /repo worktree remove --force $wt 2>/dev/null; rm -rf $ev
}
export -f one; export TMP
ls /verif/seeded | grep -E '^C[0-9][0-9]-[A-Z]$' | grep -E "$FILTER" | xargs -P $JOBS -I{} bash -c 'one {}' | sort | tee $OUT
rm -rf $TMP
echo "not reported: $(grep -v neutralised $OUT | grep -vc 'exit=1 ')"
