package utils

import "os"

// ---- C09 (helper): WriteFileAtomic on arbitrary byte contents, with a history of events ----
// old content, then a first replacement that is cut short after k bytes (error or kill),
// then an ordinary second replacement: after each step the file holds exactly one of the
// complete contents, never a prefix or a mixture (a stale temporary file must not leak in).

func c09Equal(a, b []byte) bool {
	if len(a) != len(b) {
		return false
	}
	for i := range a {
		if a[i] != b[i] {
			return false
		}
	}
	return true
}

func VerifHarness_C09_AtomicHelper() {
	path := verifFSRoot() + "/cfg/data.bin"
	old := verifBytes("old", verifIntRange("oldLen", 0, 3))
	new1 := verifBytes("new1", verifIntRange("new1Len", 1, 4))
	new2 := verifBytes("new2", verifIntRange("new2Len", 0, 2))
	verifFSPutBytes(path, old)
	// step 1: interrupted replacement
	mode := verifIntRange("event", 1, 2)
	k := verifInt("k")
	verifAssume(k >= 0)
	verifFSWritePlan(path, mode, k)
	var err1 error
	killed := verifCatch(func() { err1 = WriteFileAtomic(path, new1, 0o644) })
	verifFSWriteUnlimit()
	got, rerr := os.ReadFile(path)
	verifAssert(rerr == nil, "C09: the file is still there after an interrupted replacement")
	verifAssert(c09Equal(got, old) || c09Equal(got, new1), "C09: after an interrupted replacement the file holds the complete previous or the complete new content")
	if !killed && err1 == nil {
		verifAssert(c09Equal(got, new1), "C09: a replacement reported as successful took effect")
	}
	// step 2: a later, undisturbed replacement (possibly shorter than what step 1 left behind)
	err2 := WriteFileAtomic(path, new2, 0o644)
	verifAssert(err2 == nil, "C09: an undisturbed replacement succeeds")
	got2, rerr2 := os.ReadFile(path)
	verifAssert(rerr2 == nil && c09Equal(got2, new2), "C09: after a later undisturbed replacement the file holds exactly the new content (nothing left over from the interrupted one)")
	verifReach("done")
	if killed || err1 != nil {
		verifReach("interrupted")
	}
}

// ---- C09 (helper): the last step of the replacement - the rename - fails ----
// The write of the temporary file succeeded, the rename over the live file is refused
// (EIO, EACCES, EPERM; on the first one to three attempts). The live file must still hold the complete
// previous content (or the new one if a later attempt went through), and a later undisturbed
// replacement works. A failing rename cannot be produced portably on a real file system,
// so these are model assertions (no native replay).
func VerifHarness_C09_RenameFault() {
	path := verifFSRoot() + "/cfg/data.bin"
	old := verifBytes("old", verifIntRange("oldLen", 0, 3))
	new1 := verifBytes("new1", verifIntRange("new1Len", 1, 3))
	verifFSPutBytes(path, old)
	errno := []int{5, 13, 1}[verifIntRange("errno", 0, 2)]
	verifFSFaultRead("rename:"+path+".tmp", errno, verifIntRange("times", 1, 3))
	err1 := WriteFileAtomic(path, new1, 0o644)
	got, rerr := os.ReadFile(path)
	verifAssertModel(rerr == nil, "C09: the file is still there after a replacement whose rename step failed")
	verifAssertModel(c09Equal(got, old) || c09Equal(got, new1), "C09: after a failed rename step the file holds the complete previous or the complete new content")
	if err1 == nil {
		verifAssertModel(c09Equal(got, new1), "C09: a replacement reported as successful took effect")
	} else {
		verifReach("refused")
	}
	verifReach("done")
}
