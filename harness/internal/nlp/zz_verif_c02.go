package nlp

// C02 (TF-IDF side): norms, similarities and order must not depend on the
// iteration order of the vocabulary / term-count / query-vector maps.

func c02Same(a, b float64) bool { return a == b || (a != a && b != b) }

func VerifHarness_C02_TFIDF() {
	// document 0 has three distinct words with different frequencies, so its norm and
	// every cosine is a three-term floating-point sum whose association depends on map order
	cmds := []Command{
		{Command: "aa bb bb", Description: "cc cc cc aa", Keywords: nil},
		{Command: "dd", Description: "dd ee", Keywords: nil},
		{Command: "ff", Description: "gg", Keywords: nil},
	}
	q := []string{"aa bb cc", "aa aa bb cc cc cc", "bb cc dd"}[verifIntRange("query", 0, 2)]
	s1 := NewTFIDFSearcher(cmds) // reference: insertion order
	r1 := s1.Search(q, 5)
	verifMapOrderBig(true)
	s2 := NewTFIDFSearcher(cmds) // every map walked forwards or backwards (independently per range)
	verifMapOrderBig(false)
	r2 := s2.Search(q, 5) // the search side is varied in TFIDFSearch
	for i := range s1.commandNorms {
		verifAssert(c02Same(s1.commandNorms[i], s2.commandNorms[i]), "C02: TF-IDF document norms do not depend on map iteration order")
	}
	verifAssert(len(r1) == len(r2), "C02: TF-IDF search returns the same number of results on independently built models")
	if len(r1) == len(r2) {
		for k := range r1 {
			verifAssert(r1[k].CommandIndex == r2[k].CommandIndex, "C02: TF-IDF ranks the same commands in the same order")
			verifAssert(c02Same(r1[k].Similarity, r2[k].Similarity), "C02: TF-IDF similarities are bit-identical across runs")
		}
	}
	verifReach("compared")
}

// searching one model twice: the query-side maps (term counts, query vector) and whichever
// vector the dot product walks are iterated in every order
func VerifHarness_C02_TFIDFSearch() {
	// five documents: the words of document 0 have three different frequencies and three
	// different document frequencies, so its dot products are sums of three unrelated doubles
	cmds := []Command{
		{Command: "aa bb bb", Description: "cc cc cc", Keywords: nil},
		{Command: "aa bb", Description: "dd", Keywords: nil},
		{Command: "aa", Description: "ee ff", Keywords: nil},
		{Command: "gg", Description: "hh", Keywords: nil},
		{Command: "ii", Description: "dd jj", Keywords: nil},
	}
	// queries with as many / more distinct vocabulary terms than document 0
	q := []string{"aa bb cc", "aa aa bb cc cc cc ee", "aa bb cc dd", "bb cc dd ee gg"}[verifIntRange("query", 0, 3)]
	s := NewTFIDFSearcher(cmds)
	r1 := s.Search(q, 5)
	verifMapOrder(3)
	r2 := s.Search(q, 5)
	verifMapOrder(1)
	verifAssert(len(r1) == len(r2), "C02: TF-IDF search returns the same number of results on repeated calls")
	if len(r1) == len(r2) {
		for k := range r1 {
			verifAssert(r1[k].CommandIndex == r2[k].CommandIndex, "C02: TF-IDF ranks the same commands in the same order on repeated calls")
			verifAssert(c02Same(r1[k].Similarity, r2[k].Similarity), "C02: TF-IDF similarities are bit-identical on repeated calls")
		}
	}
	verifReach("compared")
}
