package nlp

// ---- C06 (nlp side): the expanded term list starts with the user's keywords ----

// vSymWord: a word of symbolic lower-case letters, length chosen by a bounded fork.
func vSymWord(name string, minLen, maxLen int) string {
	n := verifIntRange(name+".len", minLen, maxLen)
	w := verifString(name, n)
	for i := 0; i < len(w); i++ {
		verifAssume(w[i] >= 'a')
		verifAssume(w[i] <= 'z')
	}
	return w
}

func c06Dedup(in []string) []string {
	var out []string
	for _, x := range in {
		dup := false
		for _, y := range out {
			if x == y {
				dup = true
			}
		}
		if !dup {
			out = append(out, x)
		}
	}
	return out
}

func c06CheckEnhanced(pq *ProcessedQuery) {
	enh := pq.GetEnhancedKeywords()
	want := c06Dedup(pq.Keywords)
	verifAssert(len(enh) >= len(want), "C06: expanded terms contain every keyword of the user's text")
	if len(enh) >= len(want) {
		for k := range want {
			verifAssert(enh[k] == want[k], "C06: expanded terms begin with the user's keywords in the user's order")
		}
	}
	for a := range enh {
		for b := 0; b < a; b++ {
			verifAssert(enh[a] != enh[b], "C06: expanded terms contain no duplicates")
		}
	}
	verifMapOrder(3)
	verifMapOrderBig(true)
	again := pq.GetEnhancedKeywords() // every small map in every order, larger ones forwards and backwards
	verifMapOrderBig(false)
	verifMapOrder(1)
	verifAssert(len(again) == len(enh), "C06: expanding twice gives the same list")
	if len(again) == len(enh) {
		for k := range enh {
			verifAssert(again[k] == enh[k], "C06: expanding twice gives the same list")
		}
	}
}

// arbitrary analysis result: keywords / actions / targets are symbolic words
// (2-4 letters: compared for equality against every table word of that length)
func c06Arbitrary(mode int) {
	pq := &ProcessedQuery{Intent: IntentGeneral}
	switch mode {
	case 0: // two keywords
		pq.Keywords = []string{vSymWord("kw", 2, 3), vSymWord("kw", 1, 3)} // one-letter content words ("c", "x") are keywords too
	case 1: // keyword + action
		pq.Keywords = []string{vSymWord("kw", 2, 4)}
		pq.Actions = []string{vSymWord("act", 4, 4)}
	case 2: // keyword + target
		pq.Keywords = []string{vSymWord("kw", 2, 4)}
		pq.Targets = []string{vSymWord("tgt", 4, 4)}
	case 3: // nothing but an intent
	}
	intents := []QueryIntent{IntentGeneral, IntentFind, IntentView, IntentCreate, IntentDelete, IntentInstall, IntentModify}
	pq.Intent = intents[verifIntRange("intent", 0, len(intents)-1)]
	c06CheckEnhanced(pq)
	verifReach("checked")
}

func VerifHarness_C06_EnhancedKK() { c06Arbitrary(0) }
func VerifHarness_C06_EnhancedKA() { c06Arbitrary(1) }
func VerifHarness_C06_EnhancedKT() { c06Arbitrary(2) }
func VerifHarness_C06_EnhancedI()  { c06Arbitrary(3) }

// the real analysis of a symbolic query text, then the same contract; plus determinism of the analysis
func c06Process(nwords, maxLen int) {
	q := vSymWord("w1", 2, maxLen)
	for i := 1; i < nwords; i++ {
		q = q + " " + vSymWord("w", 1, maxLen)
	}
	qp := NewQueryProcessor()
	pq := qp.ProcessQuery(q)
	pq2 := NewQueryProcessor().ProcessQuery(q)
	verifAssert(pq.Intent == pq2.Intent && pq.Cleaned == pq2.Cleaned, "C06: analysing the same text twice gives the same analysis")
	same := func(a, b []string) bool {
		if len(a) != len(b) {
			return false
		}
		for k := range a {
			if a[k] != b[k] {
				return false
			}
		}
		return true
	}
	verifAssert(same(pq.Keywords, pq2.Keywords), "C06: analysing the same text twice gives the same keywords")
	verifAssert(same(pq.Actions, pq2.Actions), "C06: analysing the same text twice gives the same actions")
	verifAssert(same(pq.Targets, pq2.Targets), "C06: analysing the same text twice gives the same targets")
	c06CheckEnhanced(pq)
	verifReach("checked")
}

func VerifHarness_C06_Process1() { c06Process(1, 4) }
func VerifHarness_C06_Process2() { c06Process(2, 3) }

// sentences with several verbs and a target: reading the expansion leaves the analysis as it was
func VerifHarness_C06_ProcessSentences() {
	q := []string{"find and delete files", "copy or move files to another folder", "search and replace text then compress and extract archive", "list show view file", "copy file folder server", "ip of the server"}[verifIntRange("sentence", 0, 5)]
	pq := NewQueryProcessor().ProcessQuery(q)
	acts := append([]string(nil), pq.Actions...)
	tgts := append([]string(nil), pq.Targets...)
	kws := append([]string(nil), pq.Keywords...)
	c06CheckEnhanced(pq)
	same := func(a, b []string) bool {
		if len(a) != len(b) {
			return false
		}
		for k := range a {
			if a[k] != b[k] {
				return false
			}
		}
		return true
	}
	verifAssert(same(acts, pq.Actions) && same(tgts, pq.Targets) && same(kws, pq.Keywords), "C06: analysing the same text twice gives the same analysis (reading the expansion does not modify it)")
	// the nouns the user typed in these sentences (read off the text by hand: everything that
	// is neither a verb nor a stop word) come first in the expansion, in the user's order
	own := map[string][]string{
		"find and delete files":   {"files"},
		"copy file folder server": {"file", "folder", "server"},
		"ip of the server":        {"ip", "server"},
	}[q]
	enh0 := pq.GetEnhancedKeywords()
	verifAssert(len(enh0) >= len(own), "C06: expanded terms contain every keyword of the user's text")
	if len(enh0) >= len(own) {
		for k := range own {
			verifAssert(enh0[k] == own[k], "C06: expanded terms begin with the user's keywords in the user's order (nouns read off the text)")
		}
	}
	fresh := NewQueryProcessor().ProcessQuery(q)
	verifAssert(same(fresh.Actions, pq.Actions) && same(fresh.Targets, pq.Targets), "C06: analysing the same text twice gives the same analysis")
	e1, e2 := pq.GetEnhancedKeywords(), fresh.GetEnhancedKeywords()
	verifAssert(same(e1, e2), "C06: expanding twice gives the same list")
	verifReach("checked")
}
