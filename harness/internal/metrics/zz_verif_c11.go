package metrics

// ---- C11 (metrics): atomic counters, mutex-guarded histogram, double-checked registry ----

func VerifHarness_C11_Histogram() {
	h := NewHistogram("h", nil)
	if verifBool("warm") {
		h.Observe(3)
	}
	verifGuardNamed("Histogram", h, "mu")
	switch verifIntRange("op", 0, 4) {
	case 0:
		v := verifFloat64("v")
		verifAssume(v >= 0)
		verifAssume(v <= 100)
		h.Observe(v)
	case 1:
		_ = h.Count()
	case 2:
		_ = h.Sum()
	case 3:
		_ = h.Mean()
	case 4:
		_ = h.Percentile(50)
	}
	verifAssert(verifHeldNamed(h, "mu") == 0, "C11: every path releases the lock it took")
	verifReach("called")
}

func VerifHarness_C11_Counter() {
	c := NewCounter("c", nil)
	g := NewGauge("g", nil)
	verifAtomicOnly("Counter.value", &c.value)
	verifAtomicOnly("Gauge.value", &g.value)
	switch verifIntRange("op", 0, 7) {
	case 0:
		c.Inc()
	case 1:
		c.Add(verifInt64("v"))
	case 2:
		_ = c.Value()
	case 3:
		c.Reset()
	case 4:
		g.Set(2.5)
	case 5:
		g.Inc()
	case 6:
		g.Dec()
	case 7:
		_ = g.Value()
	}
	verifReach("called")
}

func VerifHarness_C11_Collector() {
	mc := NewCollector()
	tags := map[string]string{"k": "v"}
	if verifBool("warm") {
		mc.Counter("n", tags)
		mc.Histogram("h", nil)
	}
	verifGuardNamed("Collector", mc, "mu")
	switch verifIntRange("op", 0, 4) {
	case 0:
		mc.Counter("n", tags).Inc()
	case 1:
		mc.Gauge("g", nil).Set(1)
	case 2:
		mc.Histogram("h", nil).Observe(1)
	case 3:
		mc.Timer("t", nil)
	case 4:
		_ = mc.GetAllMetrics()
	}
	verifAssert(verifHeldNamed(mc, "mu") == 0, "C11: every path releases the lock it took")
	verifReach("called")
}
