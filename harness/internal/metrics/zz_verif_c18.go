package metrics

import (
	"math"
	"time"
)

// ---- C18: metrics are keyed by identity and account for every event ----

func c18Atom(name string) string {
	w := verifString(name, 1)
	verifAssume(w[0] >= 'a')
	verifAssume(w[0] <= 'z')
	return w
}

// (1) same name + same tags => same metric, whatever order the tags are held in
func c18Identity(ntags int) {
	c := NewCollector()
	keys := make([]string, ntags)
	vals := make([]string, ntags)
	for i := range keys {
		keys[i] = c18Atom("tagkey")
		vals[i] = c18Atom("tagval")
		for j := 0; j < i; j++ {
			verifAssume(keys[j] != keys[i])
		}
	}
	mk := func() map[string]string {
		m := map[string]string{}
		for i := range keys {
			m[keys[i]] = vals[i]
		}
		return m
	}
	verifMapOrder(3)
	a := c.Counter("events", mk())
	b := c.Counter("events", mk())
	h1 := c.Histogram("lat", mk())
	h2 := c.Histogram("lat", mk())
	verifMapOrder(1)
	verifAssert(a == b, "C18: the same name and tags always yield the same counter, whatever order the tags are held in")
	verifAssert(h1 == h2, "C18: the same name and tags always yield the same histogram, whatever order the tags are held in")
	a.Inc()
	b.Inc()
	verifAssert(a.Value() == 2, "C18: every event recorded for one series lands in one series")
	verifReach("identity")
}

func VerifHarness_C18_Identity1() { c18Identity(1) }
func VerifHarness_C18_Identity2() { c18Identity(2) }
func VerifHarness_C18_Identity3() { c18Identity(3) }

// (2) a counter's value equals what was added (machine arithmetic, wrap included)
func VerifHarness_C18_Counter() {
	c := NewCounter("n", nil)
	k := verifIntRange("ops", 0, 4)
	var want int64
	for i := 0; i < k; i++ {
		if verifBool("inc") {
			c.Inc()
			want++
		} else {
			v := verifInt64("v")
			c.Add(v)
			want += v
		}
	}
	verifAssert(c.Value() == want, "C18: a counter's value equals the increments applied to it")
	c.Reset()
	verifAssert(c.Value() == 0, "C18: reset clears the counter")
	verifReach("counted")
}

// (3) histogram: exact count and sum, buckets account for every observation, monotone percentiles
func c18Histogram(k int, symbolicBuckets bool) {
	var h *Histogram
	if symbolicBuckets {
		b1, b2, b3 := verifFloat64("b1"), verifFloat64("b2"), verifFloat64("b3")
		verifAssume(b1 >= 0)
		verifAssume(b1 < b2)
		verifAssume(b2 < b3)
		verifAssume(b3 <= 1e9)
		h = NewHistogramWithBuckets("h", []float64{b1, b2, b3}, nil)
	} else {
		h = NewHistogram("h", nil)
	}
	var sum float64
	for i := 0; i < k; i++ {
		v := verifFloat64("obs")
		verifAssume(v >= -1e9)
		verifAssume(v <= 1e9)
		h.Observe(v)
		sum += v
	}
	verifAssert(h.Count() == int64(k), "C18: a histogram reports exactly as many observations as were made")
	s := h.Sum()
	verifAssert(s == sum || (s != s && sum != sum), "C18: a histogram reports the exact sum of its observations")
	var total int64
	for _, c := range h.counts {
		verifAssert(c >= 0, "C18: bucket counts are non-negative")
		total += c
	}
	verifAssert(total == int64(k), "C18: every observation lands in exactly one bucket")
	p1, p2 := verifFloat64("p1"), verifFloat64("p2")
	verifAssume(p1 >= 0)
	verifAssume(p1 <= p2)
	verifAssume(p2 <= 100)
	q1, q2 := h.Percentile(p1), h.Percentile(p2)
	verifAssert(q1 <= q2, "C18: percentiles never decrease as the percentile grows")
	verifAssert(!math.IsNaN(q1) && !math.IsNaN(q2), "C18: percentiles are numbers")
	verifReach("observed")
}

func VerifHarness_C18_Histogram1()  { c18Histogram(verifIntRange("k", 0, 1), false) }
func VerifHarness_C18_Histogram2()  { c18Histogram(2, false) }
func VerifHarness_C18_Histogram2B() { c18Histogram(verifIntRange("k", 1, 2), true) }
func VerifHarness_C18_Histogram3B() { c18Histogram(3, true) }

// (4) the monitor's per-search and per-operation totals equal the number of operations recorded
func c18Monitor(k, j int) {
	pm := NewPerformanceMonitor()
	hits := 0
	verifMapOrder(3)
	for i := 0; i < k; i++ {
		hit := verifBool("cacheHit")
		if hit {
			hits++
		}
		pm.RecordSearchOperation(3*time.Millisecond, 2, hit, 5)
	}
	opCount := map[string]int{}
	for i := 0; i < j; i++ {
		op := []string{"load", "save"}[verifIntRange("op", 0, 1)]
		ok := verifBool("success")
		pm.RecordDatabaseOperation(op, time.Millisecond, ok)
		opCount[pm.collector.metricKey("database_operations_total", map[string]string{"operation": op, "success": map[bool]string{true: "true", false: "false"}[ok]})]++
	}
	verifMapOrder(1)
	sumNamed := func(name string) int64 {
		var t int64
		for _, c := range pm.collector.counters {
			if c.name == name {
				t += c.Value()
			}
		}
		return t
	}
	seriesNamed := func(name string) int {
		n := 0
		for _, c := range pm.collector.counters {
			if c.name == name {
				n++
			}
		}
		return n
	}
	verifAssert(sumNamed("searches_total") == int64(k), "C18: the per-search total equals the number of searches recorded")
	verifAssert(sumNamed("cache_hits_total")+sumNamed("cache_misses_total") == int64(k), "C18: cache hits plus misses equal the number of searches recorded")
	verifAssert(sumNamed("cache_hits_total") == int64(hits), "C18: cache hits are counted as hits")
	verifAssert(sumNamed("database_operations_total") == int64(j), "C18: the per-operation total equals the number of operations recorded")
	// ... and per identity: each (operation, outcome) series holds exactly its own events
	for key, c := range pm.collector.counters {
		if c.name == "database_operations_total" {
			verifAssert(c.Value() == int64(opCount[key]), "C18: every event recorded for one series lands in that series (operation, outcome)")
		}
	}
	// one series per distinct (operation, success) identity: never more series than identities
	verifAssert(seriesNamed("searches_total") <= 2, "C18: at most one searches_total series per cache_hit value")
	verifAssert(seriesNamed("database_operations_total") <= j && seriesNamed("database_operations_total") <= 4, "C18: at most one series per (operation, success) identity")
	if j == 2 {
		// two operations with the same identity must share one series
		verifReach("two-ops")
	}
	verifReach("monitored")
}

func VerifHarness_C18_Monitor() {
	c18Monitor(verifIntRange("searches", 0, 2), verifIntRange("dbops", 0, 2))
}
func VerifHarness_C18_Monitor3() { c18Monitor(3, 2) }

// same identity recorded twice => exactly one series holding both events
func VerifHarness_C18_MonitorSameIdentity() {
	pm := NewPerformanceMonitor()
	ok := verifBool("success")
	verifMapOrder(3)
	pm.RecordDatabaseOperation("load", time.Millisecond, ok)
	pm.RecordDatabaseOperation("load", time.Millisecond, ok)
	verifMapOrder(1)
	n := 0
	for _, c := range pm.collector.counters {
		if c.name == "database_operations_total" {
			n++
			verifAssert(c.Value() == 2, "C18: both events of one identity land in one series")
		}
	}
	verifAssert(n == 1, "C18: one identity, one series")
	verifReach("monitored")
}

// percentiles on a grid including the end points, for histograms filled from a few symbolic
// bucket choices: cheap (no floating-point solving) and covers p = 0 and p = 100
func VerifHarness_C18_PercentileGrid() {
	h := NewHistogram("h", nil)
	vals := []float64{0.05, 0.7, 3, 40, 700, 20000, 0.000244140625, 1.5e-7}
	n := verifIntRange("n", 1, 3)
	sum := 0.0
	for i := 0; i < n; i++ {
		v := vals[verifIntRange("bucket", 0, len(vals)-1)]
		h.Observe(v)
		sum += v
	}
	verifAssert(h.Sum() == sum, "C18: a histogram reports the exact sum of its observations")
	grid := []float64{0, 1, 25, 50, 75, 90, 99, 99.9, 100}
	prev := h.Percentile(grid[0])
	for _, p := range grid[1:] {
		cur := h.Percentile(p)
		verifAssert(prev <= cur, "C18: percentiles never decrease as the percentile grows")
		prev = cur
	}
	verifAssert(h.Count() == int64(n), "C18: a histogram reports exactly as many observations as were made")
	verifReach("observed")
}

// "sequentially and from concurrent goroutines": the accounting above is decided for one
// goroutine; for schedules the same lock-discipline obligations as C11 are discharged here
// (every registry access inside the collector's lock, a re-acquired lock re-validates what it
// read before, counters touched only through sync/atomic, histogram fields only under its mutex)
func VerifHarness_C18_CollectorLocks() { VerifHarness_C11_Collector() }
func VerifHarness_C18_CounterAtomic()  { VerifHarness_C11_Counter() }
func VerifHarness_C18_HistogramLocks() { VerifHarness_C11_Histogram() }

// three tags with concrete names, every order of the tag map (the project's own series have
// 0-2 tags; three is where an insufficient ordering of the key shows)
func VerifHarness_C18_Identity3C() {
	c := NewCollector()
	mk := func() map[string]string { return map[string]string{"op": "load", "ok": "true", "db": "main"} }
	a := c.Counter("events", mk()) // reference: one fixed order
	verifMapOrder(3)
	b := c.Counter("events", mk())
	verifMapOrder(1)
	verifAssert(a == b, "C18: the same name and tags always yield the same counter, whatever order the tags are held in")
	a.Inc()
	b.Inc()
	verifAssert(a.Value() == 2, "C18: every event recorded for one series lands in one series")
	verifReach("identity")
}

// observations beyond the last bucket bound are observations too
func VerifHarness_C18_Overflow() {
	h := NewHistogram("h", nil)
	vals := []float64{5, 10000, 10001, 1e9}
	n := verifIntRange("n", 1, 3)
	for i := 0; i < n; i++ {
		h.Observe(vals[verifIntRange("value", 0, len(vals)-1)])
	}
	verifAssert(h.Count() == int64(n), "C18: a histogram reports exactly as many observations as were made")
	verifAssert(h.Percentile(99) > 0, "C18: percentiles of positive observations are positive")
	verifReach("observed")
}

// no tags at all, given as nil or as an empty map: one identity
func VerifHarness_C18_Identity0() {
	c := NewCollector()
	a := c.Counter("events", nil)
	b := c.Counter("events", map[string]string{})
	verifAssert(a == b, "C18: the same name and tags always yield the same counter (no tags: nil or empty)")
	verifAssert(c.Histogram("lat", map[string]string{}) == c.Histogram("lat", nil), "C18: the same name and tags always yield the same histogram (no tags: nil or empty)")
	a.Inc()
	b.Inc()
	verifAssert(a.Value() == 2, "C18: every event recorded for one series lands in one series")
	n := 0
	for _, m := range c.GetAllMetrics() {
		if m.Name == "events" {
			n++
		}
	}
	verifAssert(n == 1, "C18: one identity, one series")
	verifReach("identity")
}
