package recovery

// ---- C20 (recovery path): the CLI's last-resort search gives the same answer for every
// re-casing of the query ----

func VerifHarness_C20_Recovery() {
	db := c01RecoveryDB()
	base := []string{"xq bb", "xq aa cc", "bb"}[verifIntRange("query", 0, 2)]
	up := make([]byte, len(base))
	for i := 0; i < len(base); i++ {
		b := base[i]
		if b >= 'a' && b <= 'z' {
			m := verifByte("mask")
			verifAssume(m <= 1)
			up[i] = b - m*32
		} else {
			up[i] = b
		}
	}
	r1, e1 := NewSearchRecovery().RecoverFromSearchFailureWithLimit(base, nil, db, 5)
	r2, e2 := NewSearchRecovery().RecoverFromSearchFailureWithLimit(string(up), nil, db, 5)
	verifAssert((e1 == nil) == (e2 == nil), "C20: a re-cased query fails or succeeds alike in the recovery search")
	verifAssert(len(r1) == len(r2), "C20: a re-cased query returns the same number of results (recovery search)")
	if len(r1) == len(r2) {
		for k := range r1 {
			verifAssert(r1[k].Command == r2[k].Command, "C20: a re-cased query returns the same commands in the same order (recovery search)")
		}
	}
	verifReach("compared")
	if len(r1) > 0 {
		verifReach("nonempty")
	}
}
