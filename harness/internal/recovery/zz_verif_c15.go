package recovery

import (
	"strings"
	"time"

	"github.com/Vedant9500/WTF/internal/database"
)

// ---- C15: loading always ends with a usable database, without futile retries ----

const (
	c15OK = iota
	c15Missing
	c15Dir
	c15Garbage
	c15Denied // EACCES on open
	c15IOErr  // EIO on open (transient or not)
	c15Blank  // a file with no YAML document in it (empty, or only a comment): loads as zero entries
)

func c15Entries(tag string, n int) []database.Command {
	var out []database.Command
	for i := 0; i < n; i++ {
		out = append(out, database.Command{Command: tag + string(rune('a'+i)), Description: "d " + tag, Keywords: []string{"kw"}})
	}
	return out
}

func c15Put(path string, state int, entries []database.Command, faultTimes int) {
	switch state {
	case c15OK:
		verifFSPutDoc(path, "yaml", entries)
	case c15Missing:
	case c15Dir:
		verifFSMkdir(path)
	case c15Garbage:
		// damaged in one of several ways; the decoder's message for a duplicated mapping key quotes
		// the key, which may read like an operating-system error
		g := 0
		if c15Echo {
			g = verifIntRange("garbage", 0, 3)
		}
		if g == 0 {
			verifFSPutGarbage(path)
		} else {
			phrase := []string{"", "no such file or directory", "permission denied", "is a directory"}[g]
			verifFSPutBytes(path, []byte("- command: x\n  description: y\n  \""+phrase+"\": one\n  \""+phrase+"\": two\n"))
		}
	case c15Blank:
		if verifBool("commentOnly") {
			verifFSPutBytes(path, []byte("# nothing yet\n"))
		} else {
			verifFSPutBytes(path, nil)
		}
	case c15Denied:
		verifFSPutDoc(path, "yaml", entries)
		verifFSFaultRead(path, 13, faultTimes)
	case c15IOErr:
		verifFSPutDoc(path, "yaml", entries)
		verifFSFaultRead(path, 5, faultTimes)
	}
}

func c15Run(mainStates, personalStates []int, maxAttemptsHi int, symbolicDelays bool) {
	c15RunF(mainStates, personalStates, maxAttemptsHi, symbolicDelays, false)
}

var c15FactorGrid []float64

// c15Echo: damaged files also come in the variants whose decoder message quotes an OS-error phrase
var c15Echo bool

func c15RunF(mainStates, personalStates []int, maxAttemptsHi int, symbolicDelays bool, symbolicFactor bool) {
	root := verifFSRoot()
	mainPath, personalPath := root+"/db/commands.yml", root+"/cfg/personal.yml"
	ms := mainStates[verifIntRange("main", 0, len(mainStates)-1)]
	ps := personalStates[verifIntRange("personal", 0, len(personalStates)-1)]
	mainEntries := c15Entries("m", verifIntRange("mainEntries", 0, 2))
	persEntries := c15Entries("p", verifIntRange("personalEntries", 0, 1))
	if len(mainEntries) > 0 && len(persEntries) > 0 && verifBool("notebookRepeatsMain") {
		// a notebook entry whose command text is a main entry's, in other letter case
		persEntries[0].Command = strings.ToUpper(mainEntries[0].Command)
	}
	if ms == c15Blank {
		mainEntries = nil
	}
	if ps == c15Blank {
		persEntries = nil
	}
	attempts := verifIntRange("maxAttempts", 1, maxAttemptsHi)
	// a fault may be transient: it hits the first `times` reads only
	times := verifIntRange("faultTimes", 1, attempts)
	c15Put(mainPath, ms, mainEntries, times)
	c15Put(personalPath, ps, persEntries, times)
	if verifBool("hasBackup") {
		// a backup copy beside the main file: possibly empty, possibly stale
		verifFSPutDoc(mainPath+".backup", "yaml", c15Entries("b", verifIntRange("backupEntries", 0, 1)))
	}
	cfg := RetryConfig{MaxAttempts: attempts, BaseDelay: 100 * time.Millisecond, MaxDelay: 5 * time.Second, BackoffFactor: 2.0}
	if symbolicDelays {
		cfg.BaseDelay = time.Duration(verifInt64("baseDelay"))
		cfg.MaxDelay = time.Duration(verifInt64("maxDelay"))
		verifAssume(cfg.BaseDelay >= 1)
		verifAssume(cfg.BaseDelay <= 1<<40)
		verifAssume(cfg.MaxDelay >= 1)
		verifAssume(cfg.MaxDelay <= 1<<40)
	}
	if c15FactorGrid != nil {
		cfg.BackoffFactor = c15FactorGrid[verifIntRange("factorIdx", 0, len(c15FactorGrid)-1)]
		cfg.BaseDelay = []time.Duration{1, 100 * time.Millisecond, 1 << 40}[verifIntRange("baseIdx", 0, 2)]
		cfg.MaxDelay = []time.Duration{1, 5 * time.Second, 1 << 40}[verifIntRange("maxIdx", 0, 2)]
	} else if symbolicFactor {
		cfg.BackoffFactor = verifFloat64("factor")
		verifAssume(cfg.BackoffFactor >= 1)
		verifAssume(cfg.BackoffFactor <= 1e9)
	}
	start := time.Now()
	db, err := NewDatabaseRecovery(cfg).LoadDatabaseWithFallback(mainPath, personalPath)
	elapsed := time.Since(start)
	verifAssert(db != nil && err == nil, "C15: loading always ends with a database and no error")
	if db == nil {
		return
	}
	// which attempt (if any) sees both files healthy?
	mainHealthyAt := 0 // first attempt at which the main file reads and parses
	if ms == c15OK || ms == c15Blank {
		mainHealthyAt = 1
	} else if (ms == c15IOErr) && times < attempts {
		mainHealthyAt = times + 1 // transient I/O fault: retried and then fine
	}
	persFine := ps == c15OK || ps == c15Missing || ps == c15Blank
	if ps == c15IOErr || ps == c15Denied {
		persFine = false
	}
	if mainHealthyAt > 0 && persFine {
		want := append([]database.Command(nil), mainEntries...)
		if ps == c15OK || ps == c15Blank {
			want = append(want, persEntries...)
		}
		verifAssert(len(db.Commands) == len(want), "C15: the real database (main entries then notebook entries) is used whenever it loads")
		if len(db.Commands) == len(want) {
			for i := range want {
				verifAssert(db.Commands[i].Command == want[i].Command, "C15: main entries first, then notebook entries, in order")
			}
		}
		verifReach("real")
	} else if mainHealthyAt == 0 || ps == c15Dir || ps == c15Garbage || ps == c15Denied {
		// main file unusable, or a (persistently) broken notebook beside a good main file
		verifAssert(len(db.Commands) > 0, "C15: the built-in fallback is not empty")
		for i := range db.Commands {
			verifAssert(len(mainEntries) == 0 || db.Commands[i].Command != mainEntries[0].Command, "C15: the fallback is the built-in set (a broken notebook is not taken for an absent one)")
		}
		for i := range db.Commands {
			verifAssert(db.Commands[i].Command != c15Entries("b", 1)[0].Command, "C15: the fallback is the built-in set (not some other file's content)")
		}
		verifReach("fallback")
	}
	// the returned database is searchable
	_ = db.SearchUniversal("list", database.SearchOptions{Limit: 3, AllPlatforms: true})
	// when every attempt fails for a retryable reason there are attempts-1 waits, each at
	// least min(base, max) and at most max (observable natively as elapsed fake time)
	if (ms == c15Garbage || ms == c15Dir) && (symbolicDelays || symbolicFactor || c15FactorGrid != nil) {
		lo := cfg.BaseDelay
		if cfg.MaxDelay < lo {
			lo = cfg.MaxDelay
		}
		// "at most the configured number of times": any number w of waits from 0 to attempts-1 is
		// allowed (a damaged file whose decoder message reads like a permission error is given up
		// at once, which the property permits); the total must fit some such w
		fits := false
		for w := 0; w <= attempts-1; w++ {
			if elapsed >= time.Duration(w)*lo && elapsed <= time.Duration(w)*cfg.MaxDelay {
				fits = true
			}
		}
		verifAssert(fits, "C15: waits never decrease and never exceed the configured maximum (the total wait fits some number of waits from 0 to attempts-1, each between the first wait and the maximum)")
		verifAssert(elapsed <= time.Duration(attempts-1)*cfg.MaxDelay, "C15: no wait exceeds the configured maximum (total wait bounded)")
	}
	// a permission-denied notebook beside a good main file is not retried either
	if (ms == c15OK || ms == c15Blank) && ps == c15Denied {
		verifAssert(elapsed == 0, "C15: a missing or permission-denied database file is tried once (no retry wait; notebook)")
	}
	// no futile retries: a missing or permission-denied file is tried once => no waiting at all
	if ms == c15Missing || ms == c15Denied {
		verifAssert(elapsed == 0, "C15: a missing or permission-denied database file is tried once (no retry wait)")
		verifReach("tried-once")
	}
	if verifIsSymbolicRun() {
		reads := verifFSReads(mainPath)
		if ms == c15Missing || ms == c15Denied {
			verifAssertModel(reads == 1, "C15: a missing or permission-denied database file is read exactly once")
		}
		verifAssertModel(reads <= attempts+1, "C15: at most the configured number of attempts (plus none by the fallbacks)")
		sl := verifSleeps()
		verifAssertModel(len(sl) <= attempts-1, "C15: at most attempts-1 waits")
		for i, d := range sl {
			verifAssertModel(d <= int64(cfg.MaxDelay), "C15: no wait exceeds the configured maximum")
			if i > 0 {
				verifAssertModel(sl[i-1] <= d, "C15: waits never decrease")
			}
		}
	}
	verifReach("loaded")
}

func VerifHarness_C15_Ladder() {
	c15Echo = true
	defer func() { c15Echo = false }()
	c15Run([]int{c15OK, c15Missing, c15Dir, c15Garbage, c15Denied, c15IOErr, c15Blank}, []int{c15OK, c15Missing, c15Garbage, c15Dir, c15Blank, c15Denied}, 3, false)
}
func VerifHarness_C15_LadderDelays() {
	c15Run([]int{c15Garbage, c15IOErr, c15Dir}, []int{c15Missing}, 3, true)
}
func VerifHarness_C15_Ladder4() {
	c15Run([]int{c15OK, c15Missing, c15Dir, c15Garbage, c15Denied, c15IOErr}, []int{c15OK, c15Missing, c15Garbage, c15Dir, c15IOErr, c15Denied}, 4, false)
}

func VerifHarness_C15_LadderFactor() {
	c15RunF([]int{c15Garbage}, []int{c15Missing}, 3, true, true)
}

// back-off factor, first wait and cap from grids (concrete arithmetic, symbolic choices)
func VerifHarness_C15_LadderGrid() {
	c15FactorGrid = []float64{1, 1.5, 2, 1e3, 1e6, 1e9}
	c15RunF([]int{c15Garbage, c15Missing}, []int{c15Missing}, 4, false, false)
	c15FactorGrid = nil
}

// one recovery object serving several loads (a long-lived process): each load stands alone
func VerifHarness_C15_TwoLoads() {
	root := verifFSRoot()
	mainPath, personalPath := root+"/db/commands.yml", root+"/cfg/personal.yml"
	cfg := RetryConfig{MaxAttempts: verifIntRange("maxAttempts", 1, 3), BaseDelay: time.Millisecond, MaxDelay: 4 * time.Millisecond, BackoffFactor: 2}
	dr := NewDatabaseRecovery(cfg)
	first := []int{c15Garbage, c15Missing, c15OK}[verifIntRange("first", 0, 2)]
	c15Put(mainPath, first, c15Entries("m", 2), 1)
	db1, err1 := dr.LoadDatabaseWithFallback(mainPath, personalPath)
	verifAssert(db1 != nil && err1 == nil && len(db1.Commands) > 0, "C15: loading always ends with a database and no error")
	// the file is repaired (or stays as it was); the same object loads again
	if verifBool("repaired") {
		verifFSPutDoc(mainPath, "yaml", c15Entries("m", 2))
		first = c15OK
	}
	loads := verifIntRange("moreLoads", 1, 3)
	for k := 0; k < loads; k++ {
		db2, err2 := dr.LoadDatabaseWithFallback(mainPath, personalPath)
		verifAssert(db2 != nil && err2 == nil, "C15: loading always ends with a database and no error (a later load through the same recovery object)")
		if db2 == nil {
			return
		}
		if first == c15OK {
			verifAssert(len(db2.Commands) == 2 && db2.Commands[0].Command == "ma", "C15: the real database is used whenever it loads (a later load)")
		} else {
			verifAssert(len(db2.Commands) > 0, "C15: the built-in fallback is not empty")
		}
	}
	verifReach("loaded")
}
