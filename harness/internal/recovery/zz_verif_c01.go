package recovery

import (
	"math"

	"github.com/Vedant9500/WTF/internal/database"
)

func vLetter2(name string) string {
	w := verifString(name, 2)
	for i := 0; i < len(w); i++ {
		verifAssume(w[i] >= 'a')
		verifAssume(w[i] <= 'z')
	}
	return w
}

func c01RecoveryDB() *database.Database {
	mk := func(cmd, desc string) database.Command {
		return database.Command{Command: cmd, Description: desc, CommandLower: cmd, DescriptionLower: desc}
	}
	return &database.Database{Commands: []database.Command{
		mk("aa bb", "cc"), mk("aa", "bb cc"), mk("bb aa", "aa"), mk("cc", "aa bb"), mk("aa cc", ""), mk("", "a note without a command"),
	}}
}

// C01 (recovery path): the list handed to the printer is bounded by the limit in force,
// duplicate-free, made of database entries, finitely and non-increasingly scored.
func VerifHarness_C01_Recovery() {
	db := c01RecoveryDB()
	limit := verifInt("limit")
	verifAssume(limit >= 1) // the CLI passes a validated limit (1..100)
	q := vLetter2("q1")
	switch verifIntRange("words", 0, 3) {
	case 0:
		q = "" // library callers may pass an empty query (the CLI never does)
	case 2:
		q = q + " " + vLetter2("q2")
	case 3:
		q = q + " " + vLetter2("q2") + " " + vLetter2("q3")
	}
	res, err := NewSearchRecovery().RecoverFromSearchFailureWithLimit(q, nil, db, limit)
	if err != nil {
		verifAssert(len(res) == 0, "C01: failed recovery returns no results")
		verifReach("failed")
		return
	}
	verifAssert(len(res) <= limit, "C01: at most the requested number of results (recovery search)")
	for k := range res {
		idx := -1
		for i := range db.Commands {
			if res[k].Command == &db.Commands[i] {
				idx = i
			}
		}
		verifAssert(idx >= 0, "C01: every result is an entry of the searched database (recovery search)")
		for l := 0; l < k; l++ {
			verifAssert(res[l].Command != res[k].Command, "C01: no entry appears twice (recovery search)")
		}
		s := res[k].Score
		verifAssert(!math.IsNaN(s) && !math.IsInf(s, 0) && s >= 0, "C01: score is finite and non-negative (recovery search)")
		if k > 0 {
			verifAssert(res[k-1].Score >= s, "C01: results are in non-increasing score order (recovery search)")
		}
	}
	verifReach("recovered")
	if len(res) == limit {
		verifReach("truncated")
	}
}

// C10: the recovery searches are total on arbitrary query bytes
func VerifHarness_C10_RecoveryBytes() {
	db := c01RecoveryDB()
	q := verifString("q", 3)
	res, err := NewSearchRecovery().RecoverFromSearchFailureWithLimit(q, nil, db, verifInt("limit"))
	if err != nil {
		verifAssert(len(res) == 0, "C10: failed recovery returns nothing")
	}
	verifReach("returned")
}
