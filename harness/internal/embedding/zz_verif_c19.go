package embedding

import "math"

// ---- C19: semantic embeddings are optional and their files cannot hurt ----

func c19Finite32(name string) float32 {
	f := verifFloat32(name)
	verifAssume(f >= -1e6)
	verifAssume(f <= 1e6)
	return f
}

// (1a) cosine is symmetric (bit for bit) and 0 for zero vectors
func c19CosineSym(d int) {
	a := make([]float32, d)
	b := make([]float32, d)
	for i := 0; i < d; i++ {
		a[i], b[i] = c19Finite32("a"), c19Finite32("b")
	}
	ab, ba := CosineSimilarity(a, b), CosineSimilarity(b, a)
	verifAssert(math.Float64bits(ab) == math.Float64bits(ba), "C19: cosine similarity is symmetric")
	verifReach("cosine")
}

func VerifHarness_C19_CosineSym1() { c19CosineSym(1) }
func VerifHarness_C19_CosineSym2() { c19CosineSym(2) }
func VerifHarness_C19_CosineSym3() { c19CosineSym(3) }

// (1b) cosine lies between -1 and 1 and is a number (floating-point reasoning through
// division and square roots: the expensive obligation)
func c19CosineRange(d int, lim float32) {
	a := make([]float32, d)
	b := make([]float32, d)
	for i := 0; i < d; i++ {
		a[i], b[i] = verifFloat32("a"), verifFloat32("b")
		verifAssume(a[i] >= -lim)
		verifAssume(a[i] <= lim)
		verifAssume(b[i] >= -lim)
		verifAssume(b[i] <= lim)
	}
	c := CosineSimilarity(a, b)
	verifAssert(c <= 1, "C19: cosine similarity is at most 1")
	verifAssert(c >= -1, "C19: cosine similarity is at least -1")
	verifReach("cosine")
}

func VerifHarness_C19_CosineRange1() { c19CosineRange(1, 1e6) }
func VerifHarness_C19_CosineRange2() { c19CosineRange(2, 1e6) }

func VerifHarness_C19_CosineShapes() {
	a := []float32{c19Finite32("a0"), c19Finite32("a1")}
	verifAssert(CosineSimilarity(a, a[:1]) == 0, "C19: similarity of vectors of different length is 0")
	verifAssert(CosineSimilarity(a[:1], a) == 0, "C19: similarity of vectors of different length is 0 (second one longer)")
	verifAssert(CosineSimilarity([]float32{1, 2}, []float32{1, 2, 3}) == 0, "C19: similarity of vectors of different length is 0 (second one longer)")
	verifAssert(CosineSimilarity(nil, nil) == 0, "C19: similarity of empty vectors is 0")
	verifAssert(CosineSimilarity(a, []float32{0, 0}) == 0, "C19: similarity with a zero vector is 0")
	verifReach("cosine")
}

// (2) loaders on arbitrary file content: an error or vectors, no panic, and no
// allocation sized by the file's header beyond what the file can supply (+ a constant)
func c19LoadWords(n int) {
	path := verifFSRoot() + "/assets/glove.bin"
	content := verifBytes("file", n)
	if n >= 6 {
		// the word-length field is kept small: the executor enumerates slice lengths
		switch verifIntRange("wordLenClass", 0, 3) {
		case 0:
			verifAssume(content[5] == 0)
			verifAssume(content[4] <= 16)
		case 1: // longer than any fixed scratch buffer would be
			content[4], content[5] = 129, 0
		case 2:
			content[4], content[5] = 44, 1 // 300
		case 3:
			content[4], content[5] = 255, 255
		}
	}
	verifFSPutBytes(path, content)
	verifAllocBound(65536+n, "C19: loading never consumes memory out of proportion to the file's size")
	idx, err := LoadWordVectors(path)
	verifAllocCheck()
	if err == nil {
		verifAssert(idx != nil, "C19: a successful load returns an index")
		verifReach("loaded")
	} else {
		verifAssert(idx == nil, "C19: a failed load returns no index")
		verifReach("rejected")
	}
}

func VerifHarness_C19_LoadWords4() { c19LoadWords(verifIntRange("len", 0, 4)) }
func VerifHarness_C19_LoadWords8() { c19LoadWords(verifIntRange("len", 5, 8)) }

func c19LoadCmds(n int) {
	path := verifFSRoot() + "/assets/cmd_embeddings.bin"
	content := verifBytes("file", n)
	verifFSPutBytes(path, content)
	idx := &Index{Dimension: 100, WordVectors: map[string][]float32{}}
	verifAllocBound(65536+n, "C19: loading never consumes memory out of proportion to the file's size")
	err := idx.LoadCommandEmbeddings(path)
	verifAllocCheck()
	if err == nil {
		verifReach("loaded")
	} else {
		verifReach("rejected")
	}
}

func VerifHarness_C19_LoadCmds8()  { c19LoadCmds(verifIntRange("len", 0, 8)) }
func VerifHarness_C19_LoadCmds12() { c19LoadCmds(12) }

func VerifHarness_C19_LoadMissing() {
	_, err := LoadWordVectors(verifFSRoot() + "/assets/none.bin")
	verifAssert(err != nil, "C19: a missing vector file is an error, not a crash")
	idx := &Index{Dimension: 100}
	verifAssert(idx.LoadCommandEmbeddings(verifFSRoot()+"/assets/none2.bin") != nil, "C19: a missing embedding file is an error, not a crash")
	verifReach("rejected")
}

// cosine range on a small domain the FP solver can finish: 2-dimensional vectors whose
// components are small integers (the rounding of sqrt(n)*sqrt(n) against n is what matters)
func VerifHarness_C19_CosineSmall2() {
	comp := func(name string) float32 {
		x := verifInt(name)
		verifAssume(x >= 0)
		verifAssume(x <= 15)
		return float32(x)
	}
	a := []float32{comp("a0"), comp("a1")}
	b := []float32{comp("b0"), comp("b1")}
	if verifBool("same") {
		b = a
	}
	c := CosineSimilarity(a, b)
	verifAssert(c <= 1, "C19: cosine similarity is at most 1")
	verifAssert(c >= -1, "C19: cosine similarity is at least -1")
	verifReach("cosine")
}

// cosine on vectors drawn from a grid of ordinary and special IEEE values (concrete
// arithmetic, symbolic choices): a number in [-1, 1], symmetric, 0 with a zero vector
func VerifHarness_C19_CosineGrid() {
	vals := []float32{0, 1, -1, 2, 3, 9, 15, 1e-30, 3e38, float32(math.NaN()), float32(math.Inf(1))}
	small := []float32{0, 1, -2, 3e38}
	pick := func(name string, l []float32) float32 { return l[verifIntRange(name, 0, len(l)-1)] }
	a := []float32{pick("a", vals), pick("a", vals)}
	b := a
	if !verifBool("same") {
		b = []float32{pick("b", small), pick("b", small)}
	}
	c := CosineSimilarity(a, b)
	verifAssert(!math.IsNaN(c), "C19: cosine similarity is a number")
	verifAssert(c <= 1, "C19: cosine similarity is at most 1")
	verifAssert(c >= -1, "C19: cosine similarity is at least -1")
	verifAssert(math.Float64bits(c) == math.Float64bits(CosineSimilarity(b, a)), "C19: cosine similarity is symmetric")
	if (a[0] == 0 && a[1] == 0) || (b[0] == 0 && b[1] == 0) {
		verifAssert(c == 0, "C19: similarity with a zero vector is 0")
	}
	// it is the cosine: for finite components, the quotient computed in double precision
	finite := true
	var dot, na, nb float64
	for k := range a {
		x, y := float64(a[k]), float64(b[k])
		if math.IsNaN(x) || math.IsInf(x, 0) || math.IsNaN(y) || math.IsInf(y, 0) {
			finite = false
		}
		dot, na, nb = dot+x*y, na+x*x, nb+y*y
	}
	if finite && na != 0 && nb != 0 {
		ref := dot / (math.Sqrt(na) * math.Sqrt(nb))
		verifAssert(math.Abs(c-ref) <= 1e-9, "C19: cosine similarity of finite vectors is their cosine (computed in double precision)")
	}
	verifReach("cosine")
}

func c19EmbeddingFile(rows [][]float32) []byte {
	var out []byte
	put32 := func(v uint32) { out = append(out, byte(v), byte(v>>8), byte(v>>16), byte(v>>24)) }
	put32(uint32(len(rows)))
	dim := 0
	if len(rows) > 0 {
		dim = len(rows[0])
	}
	put32(uint32(dim))
	for _, r := range rows {
		for _, x := range r {
			put32(math.Float32bits(x))
		}
	}
	return out
}

// a second command-embedding table loaded into the same index: scores are those of the table
// loaded last, as for a fresh index
func VerifHarness_C19_Reload() {
	root := verifFSRoot()
	t1 := [][]float32{{1, 0}, {0, 2}}
	t2 := [][]float32{{3, 4}, {1, 1}, {0, 5}}
	if verifBool("shrink") {
		t1, t2 = t2, t1
	}
	verifFSPutBytes(root+"/a.bin", c19EmbeddingFile(t1))
	verifFSPutBytes(root+"/b.bin", c19EmbeddingFile(t2))
	q := []float32{[]float32{1, 0, 3}[verifIntRange("q0", 0, 2)], []float32{1, 2}[verifIntRange("q1", 0, 1)]}
	idx := &Index{Dimension: 2, WordVectors: map[string][]float32{}}
	verifAssert(idx.LoadCommandEmbeddings(root+"/a.bin") == nil, "C19: a well-formed table loads")
	_ = idx.SemanticScores(q)
	verifAssert(idx.LoadCommandEmbeddings(root+"/b.bin") == nil, "C19: a well-formed table loads")
	got := idx.SemanticScores(q)
	fresh := &Index{Dimension: 2, WordVectors: map[string][]float32{}}
	_ = fresh.LoadCommandEmbeddings(root + "/b.bin")
	want := fresh.SemanticScores(q)
	verifAssert(len(got) == len(want) && len(got) == len(t2), "C19: one similarity per command of the table loaded last")
	if len(got) == len(want) {
		for k := range got {
			verifAssert(math.Float64bits(got[k]) == math.Float64bits(want[k]), "C19: similarities are those of the table loaded last")
		}
	}
	verifReach("loaded")
}
