package context

import "math"

// ---- C13 (analyzer): context detection is a deterministic function of the listing ----

var c13Markers = []string{
	".git", "Dockerfile", "docker-compose.yml", "package.json", "node_modules", "vite.config.js", "requirements.txt", "setup.py",
	"pyproject.toml", "Pipfile", "go.mod", "go.sum", "Cargo.toml", "Cargo.lock", "pom.xml", "build.gradle", "global.json",
	"nuget.config", "Gemfile", "Rakefile", "composer.json", "composer.lock", "Makefile", "CMakeLists.txt", "kustomization.yaml",
	"ansible.cfg", "hosts", "inventory", "main.tf", "vars.tfvars", "app.csproj", "lib.fsproj", "old.vbproj", "site-playbook.yml",
	"playbook.yaml", "docker-compose.yaml", "kustomization.yml", "webpack.config.js", "README.md", "notes.txt",
}

func c13Name(name string) string {
	return c13Markers[verifIntRange(name, 0, len(c13Markers)-1)]
}

func c13Analyze(nfiles int, makefileBytes int, scripts int) {
	dir := verifFSRoot() + "/proj"
	names := map[string]bool{}
	for i := 0; i < nfiles; i++ {
		n := c13Name("file")
		if n == "Makefile" {
			content := verifBytes("makefile", makefileBytes)
			for k := range content {
				verifAssume(content[k] == '\n' || content[k] == ':' || content[k] == '#' || content[k] == '=' || content[k] == '.' || content[k] == '\t' || (content[k] >= 'a' && content[k] <= 'b'))
			}
			verifFSPutBytes(dir+"/"+n, content)
		} else if n == "package.json" {
			sc := map[string]string{}
			for k := 0; k < scripts; k++ {
				sc[[]string{"build", "test"}[k]] = []string{"run", "vite build", "webpack --mode production"}[verifIntRange("script", 0, 2)]
			}
			verifFSPutDoc(dir+"/"+n, "json", struct {
				Scripts map[string]string `json:"scripts"`
			}{sc})
		} else {
			verifFSPutBytes(dir+"/"+n, nil)
		}
		names[n] = true
	}
	if nfiles == 0 {
		verifFSPutBytes(dir+"/.keep", nil)
		verifFSRemove(dir + "/.keep")
		verifFSMkdir(dir)
	}
	a := NewAnalyzer()
	ctx, err := a.AnalyzeDirectory(dir)
	verifAssert(err == nil && ctx != nil, "C13: analysing a directory never fails")
	if ctx == nil {
		return
	}
	for x := range ctx.ProjectTypes {
		for y := 0; y < x; y++ {
			verifAssert(ctx.ProjectTypes[x] != ctx.ProjectTypes[y], "C13: each project type is reported at most once")
		}
	}
	hasGeneric := false
	for _, t := range ctx.ProjectTypes {
		if t == ProjectTypeGeneric {
			hasGeneric = true
		}
	}
	verifAssert(hasGeneric == (len(ctx.ProjectTypes) == 1 && ctx.ProjectTypes[0] == ProjectTypeGeneric), "C13: 'generic' is reported exactly when nothing else is recognised")
	verifAssert(len(ctx.ProjectTypes) >= 1, "C13: some project type is always reported")
	for w, f := range ctx.GetContextBoosts() {
		verifAssert(!math.IsNaN(f) && !math.IsInf(f, 0), "C13: boosts are finite")
		verifAssert(f >= 1, "C13: boosts are at least 1")
		_ = w
	}
	ctx2, _ := NewAnalyzer().AnalyzeDirectory(dir)
	verifAssert(len(ctx2.ProjectTypes) == len(ctx.ProjectTypes), "C13: analysing the same listing twice gives the same project types")
	if len(ctx2.ProjectTypes) == len(ctx.ProjectTypes) {
		for k := range ctx.ProjectTypes {
			verifAssert(ctx.ProjectTypes[k] == ctx2.ProjectTypes[k], "C13: analysing the same listing twice gives the same project types in the same order")
		}
	}
	verifAssert(ctx.HasGit == ctx2.HasGit && ctx.HasDocker == ctx2.HasDocker && ctx.Language == ctx2.Language && ctx.BuildSystem == ctx2.BuildSystem,
		"C13: analysing the same listing twice gives the same flags")
	verifAssert(len(ctx.MakeTargets) == len(ctx2.MakeTargets), "C13: analysing the same listing twice gives the same make targets")
	// the boosts derived from the listing: the same whatever order any map is walked in
	verifFreeze("GetContextBoosts", ctx)
	b1 := ctx.GetContextBoosts() // writes nothing that existed before the call (package tables, the context)
	verifUnguard()
	verifMapOrder(3)
	b2 := ctx2.GetContextBoosts()
	verifMapOrder(1)
	verifAssert(len(b1) == len(b2), "C13: analysing the same listing twice gives the same boosts (count)")
	for w, f := range b1 {
		g, ok := b2[w]
		verifAssert(ok && g == f, "C13: analysing the same listing twice gives the same boosts")
	}
	verifReach("analysed")
}

func VerifHarness_C13_Analyzer1() { c13Analyze(verifIntRange("n", 0, 1), 4, 1) }
func VerifHarness_C13_Analyzer2() { c13Analyze(2, 2, 2) }

// three files out of markers of types that have several markers each (duplicates of one type
// need not be adjacent in the sorted listing)
func VerifHarness_C13_Analyzer3() {
	saved := c13Markers
	c13Markers = []string{"package.json", "node_modules", "vite.config.js", "Dockerfile", "docker-compose.yml", "requirements.txt", "setup.py",
		"go.mod", "go.sum", "main.tf", "vars.tfvars", "Gemfile", "Rakefile", "README.md"}
	c13Analyze(3, 0, 1)
	c13Markers = saved
}

// very large directories: the same rules
func VerifHarness_C13_AnalyzerHuge() {
	dir := verifFSRoot() + "/proj"
	n := []int{999, 1001, 1500}[verifIntRange("entries", 0, 2)]
	for i := 0; i < n; i++ {
		verifFSPutBytes(dir+"/f"+string(rune('0'+i/1000))+string(rune('0'+i/100%10))+string(rune('0'+i/10%10))+string(rune('0'+i%10)), nil)
	}
	markers := verifIntRange("markers", 0, 2)
	if markers >= 1 {
		verifFSPutBytes(dir+"/go.mod", nil)
	}
	if markers >= 2 {
		verifFSPutBytes(dir+"/go.sum", nil)
	}
	ctx, err := NewAnalyzer().AnalyzeDirectory(dir)
	verifAssert(err == nil && ctx != nil, "C13: analysing a directory never fails")
	if ctx == nil {
		return
	}
	for x := range ctx.ProjectTypes {
		for y := 0; y < x; y++ {
			verifAssert(ctx.ProjectTypes[x] != ctx.ProjectTypes[y], "C13: each project type is reported at most once")
		}
	}
	verifAssert(len(ctx.ProjectTypes) >= 1, "C13: some project type is always reported")
	if markers == 0 {
		verifAssert(len(ctx.ProjectTypes) == 1 && ctx.ProjectTypes[0] == ProjectTypeGeneric, "C13: 'generic' is reported exactly when nothing else is recognised")
	}
	verifReach("analysed")
}

// Makefiles with many targets: every boost stays finite and at least 1
func VerifHarness_C13_AnalyzerManyTargets() {
	dir := verifFSRoot() + "/proj"
	n := []int{1, 11, 12, 16, 40}[verifIntRange("targets", 0, 4)]
	mf := ""
	for i := 0; i < n; i++ {
		mf += "t" + string(rune('a'+i/26)) + string(rune('a'+i%26)) + ":\n\techo x\n"
	}
	verifFSPutBytes(dir+"/Makefile", []byte(mf))
	ctx, err := NewAnalyzer().AnalyzeDirectory(dir)
	verifAssert(err == nil && ctx != nil, "C13: analysing a directory never fails")
	if ctx == nil {
		return
	}
	for _, f := range ctx.GetContextBoosts() {
		verifAssert(!math.IsNaN(f) && !math.IsInf(f, 0), "C13: boosts are finite")
		verifAssert(f >= 1, "C13: boosts are at least 1")
	}
	verifReach("analysed")
}
