package validation

// C20 (CLI side): queries that differ only in leading, trailing or repeated
// whitespace are searched as the same string.

func c20Pad(name string, minLen, maxLen int) string {
	n := verifIntRange(name+".len", minLen, maxLen)
	p := verifString(name, n)
	for i := 0; i < len(p); i++ {
		verifAssume(p[i] == ' ' || p[i] == '\t' || p[i] == '\n')
	}
	return p
}

func c20Word(name string, n int) string {
	w := verifString(name, n)
	for i := 0; i < len(w); i++ {
		verifAssume(w[i] >= '!')
		verifAssume(w[i] <= '~')
		verifAssume(!c14IsMeta(w[i]))
	}
	return w
}

func VerifHarness_C20_Whitespace() {
	w1, w2 := c20Word("w1", 2), c20Word("w2", 1)
	padded := c20Pad("lead", 0, 2) + w1 + c20Pad("mid", 1, 2) + w2 + c20Pad("trail", 0, 2)
	a, ea := ValidateQuery(padded)
	b, eb := ValidateQuery(w1 + " " + w2)
	verifAssert(ea == nil && eb == nil, "C20: padded and plain spellings are both accepted")
	if ea == nil && eb == nil {
		verifAssert(a == b, "C20: leading, trailing and repeated whitespace do not change the query that is searched")
		verifAssert(b == w1+" "+w2, "C20: a clean query is searched as typed")
	}
	verifReach("compared")
}

// the same with Unicode white space (no-break space, ideographic space, em space) mixed in
func VerifHarness_C20_WhitespaceUnicode() {
	ws := []string{" ", "\u00a0", "\u3000", "\u2003", " \u00a0", "\u3000\t", "\u00a0 "}
	pick := func(name string, allowEmpty bool) string {
		if allowEmpty {
			k := verifIntRange(name, 0, len(ws))
			if k == len(ws) {
				return ""
			}
			return ws[k]
		}
		return ws[verifIntRange(name, 0, len(ws)-1)]
	}
	w1, w2 := c20Word("w1", 1), c20Word("w2", 1)
	padded := pick("lead", true) + w1 + pick("mid", false) + w2 + pick("trail", true)
	a, ea := ValidateQuery(padded)
	b, eb := ValidateQuery(w1 + " " + w2)
	verifAssert(ea == nil && eb == nil, "C20: padded and plain spellings are both accepted")
	if ea == nil && eb == nil {
		verifAssert(a == b, "C20: leading, trailing and repeated whitespace do not change the query that is searched")
	}
	verifReach("compared")
}
