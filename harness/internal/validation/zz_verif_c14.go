package validation

import "github.com/Vedant9500/WTF/internal/constants"

// C14 harnesses: ValidateLimit over all int64, ValidateQuery over byte strings.

func VerifHarness_C14_Limit() {
	in := verifInt("limit")
	out, err := ValidateLimit(in)
	if err == nil {
		verifAssert(out >= 1 && out <= 100, "C14: accepted limit within 1..100")
		if in == 0 {
			verifAssert(out == constants.DefaultSearchLimit, "C14: limit 0 means the default")
		} else {
			verifAssert(out == in, "C14: accepted non-zero limit returned unchanged")
		}
	} else {
		verifAssert(in < 0 || in > 100, "C14: only out-of-range limits are rejected")
	}
	verifReach("end")
}
