package validation

import (
	"unicode"
	"unicode/utf8"

	"github.com/Vedant9500/WTF/internal/constants"
)

// C14 harnesses: ValidateLimit over all int64, ValidateQuery over byte strings.

func VerifHarness_C14_Limit() {
	in := verifInt("limit")
	out, err := ValidateLimit(in)
	if err == nil {
		verifAssert(out >= 1 && out <= 100, "C14: accepted limit within 1..100")
		if in == 0 {
			verifAssert(out == constants.DefaultSearchLimit, "C14: limit 0 means the default")
		} else {
			verifAssert(out == in, "C14: accepted non-zero limit returned unchanged")
		}
	} else {
		verifAssert(in < 0 || in > 100, "C14: only out-of-range limits are rejected")
	}
	verifReach("end")
}

func c14IsMeta(b byte) bool {
	return b == '<' || b == '>' || b == '|' || b == '&' || b == ';' || b == '$'
}

// reference acceptance predicate, spelled from the property statement
func c14SpecAccept(q string) bool {
	if len(q) > 1000 {
		return false
	}
	for i := 0; i < len(q); i++ {
		if c14IsMeta(q[i]) {
			return false
		}
	}
	// "not blank once control characters are removed": removal is taken to a fixpoint -
	// deleting a control character between two stray UTF-8 bytes can join them into a new
	// character, and the result must still contain no control character
	cur := q
	for {
		var kept []byte
		for i := 0; i < len(cur); {
			r, n := utf8.DecodeRuneInString(cur[i:])
			if !(unicode.IsControl(r) && r != '\n' && r != '\t') {
				kept = append(kept, cur[i:i+n]...)
			}
			i += n
		}
		if len(kept) == len(cur) {
			break
		}
		cur = string(kept)
	}
	for _, r := range cur {
		if !unicode.IsSpace(r) {
			return true
		}
	}
	return false
}

func c14CheckClean(in, out string) {
	prevSpace := true // leading
	n := 0
	for _, r := range out {
		n++
		verifAssert(!unicode.IsControl(r), "C14: output has no control character")
		sp := unicode.IsSpace(r)
		verifAssert(!(sp && prevSpace), "C14: output has no leading or repeated whitespace")
		prevSpace = sp
	}
	verifAssert(!(prevSpace && n > 0), "C14: output has no trailing whitespace")
	verifAssert(n > 0, "C14: accepted output is not empty")
	for i := 0; i < len(out); i++ {
		verifAssert(!c14IsMeta(out[i]), "C14: output has no shell metacharacter")
	}
	verifAssert(utf8.RuneCountInString(out) <= utf8.RuneCountInString(in), "C14: output has no more characters than input")
}

func c14Body(q string) {
	out, err := ValidateQuery(q)
	spec := c14SpecAccept(q)
	verifAssert((err == nil) == spec, "C14: accepted exactly when <=1000 bytes, no metacharacter, not blank after control removal")
	if err == nil {
		c14CheckClean(q, out)
		out2, err2 := ValidateQuery(out)
		verifAssert(err2 == nil, "C14: validating a validated query succeeds")
		if err2 == nil {
			verifAssert(out2 == out, "C14: validating a validated query returns it unchanged")
		}
		verifReach("accepted")
	} else {
		verifReach("rejected")
	}
}

// F1: every byte string of length 0..L, all bytes symbolic over the full range.
func VerifHarness_C14_QueryBytes2() { c14Body(verifString("q", verifIntRange("len", 0, 2))) }
func VerifHarness_C14_QueryBytes3() { c14Body(verifString("q", 3)) }
func VerifHarness_C14_QueryBytes4() { c14Body(verifString("q", 4)) }

// F3: k copies of one symbolic byte (long loops, one variable): reaches the
// encoder-expansion corner (invalid UTF-8 bytes become 3-byte U+FFFD).
func c14Repeat(k int) {
	b := verifByte("b")
	bs := make([]byte, k)
	for i := range bs {
		bs[i] = b
	}
	c14Body(string(bs))
}
func VerifHarness_C14_Repeat334()  { c14Repeat(334) }
func VerifHarness_C14_Repeat400()  { c14Repeat(400) }
func VerifHarness_C14_Repeat1000() { c14Repeat(1000) }

// F2: boundary lengths 999 / 1000 / 1001: two symbolic bytes + concrete padding.
func c14Boundary(n int) {
	pad := make([]byte, n-2)
	for i := range pad {
		pad[i] = 'a'
	}
	c14Body(verifString("head", 1) + string(pad) + verifString("tail", 1))
}
func VerifHarness_C14_Len999()  { c14Boundary(999) }
func VerifHarness_C14_Len1000() { c14Boundary(1000) }
func VerifHarness_C14_Len1001() { c14Boundary(1001) }

// F4: symbolic bytes framed by ordinary letters, so that whitespace / control bytes are interior
func VerifHarness_C14_Framed3() { c14Body("a" + verifString("q", 3) + "b") }
func VerifHarness_C14_Framed4() { c14Body("a" + verifString("q", 4) + "b") }

// the limit is 1000 bytes, also for multi-byte characters
func VerifHarness_C14_RepeatRunes() {
	r := []string{"я", "日", "é", "😀"}[verifIntRange("rune", 0, 3)]
	n := (1000 / len(r)) + verifIntRange("extra", 0, 1) // the longest that fits, or one more
	q := ""
	for i := 0; i < n; i++ {
		q += r
	}
	if len(q) <= 1000 && verifBool("pad") && len(q)+1 <= 1001 {
		q += "a" // 1000 or 1001 bytes with a one-byte tail
	}
	c14Body(q)
}
