package cache

// ---- C05 (cache side): with a small capacity, an answer found for a request is the answer
// last stored for that very request — under eviction churn as well ----

func VerifHarness_C05_SmallCache() {
	capN := verifIntRange("cap", 1, 2)
	sc := NewSearchCache(capN, 0)
	queries := []string{"aa", "bb", "cc"}
	stored := map[string]int{} // query -> id of the answer last stored (0 = never)
	steps := 5
	nextID := 1
	for s := 0; s < steps; s++ {
		q := queries[verifIntRange("query", 0, len(queries)-1)]
		o := SearchOptions{Limit: 3}
		if verifBool("put") {
			mine := []SearchResult{{Score: float64(nextID)}}
			sc.Put(q, o, mine)
			mine[0].Score = -1 // the caller goes on using its slice: the cache keeps its own copy
			stored[q] = nextID
			nextID++
		} else {
			got, found := sc.Get(q, o)
			if found {
				verifAssert(len(got) == 1, "C05: a cached answer is the list that was stored")
				if len(got) == 1 {
					verifAssert(stored[q] != 0 && got[0].Score == float64(stored[q]), "C05: a cached answer is the one last stored for this very request (capacity churn)")
				}
				verifReach("hit")
			} else {
				verifReach("miss")
			}
		}
		verifAssert(sc.Size() <= capN, "C05: the cache never holds more entries than its capacity")
	}
	verifReach("done")
}

// answers of any length come back whole (request limits above 100 are legal for library callers
// and `wtf pipeline --limit`)
func VerifHarness_C05_LongAnswer() {
	sc := NewSearchCache(4, 0)
	n := []int{1, 99, 100, 101, 150}[verifIntRange("results", 0, 4)]
	res := make([]SearchResult, n)
	for i := range res {
		res[i] = SearchResult{Score: float64(n - i)}
	}
	o := SearchOptions{Limit: 200}
	sc.Put("aa", o, res)
	got, found := sc.Get("aa", o)
	verifAssert(found, "C05: a stored answer is found again")
	verifAssert(len(got) == n, "C05: a cached answer is the list that was stored (whole)")
	if len(got) == n {
		for i := range got {
			verifAssert(got[i].Score == float64(n-i), "C05: a cached answer is the list that was stored (entries, order)")
		}
	}
	verifReach("done")
}
