package cache

import "time"

// ---- C11 (cache): lock discipline of the LRU and the search cache on every path ----

func c11Key(name string) string {
	k := verifString(name, 1)
	verifAssume(k[0] >= 'a')
	verifAssume(k[0] <= 'c')
	return k
}

func VerifHarness_C11_LRU() {
	ttl := time.Duration(verifInt64("ttl"))
	c := NewLRUCache(2, ttl)
	n := verifIntRange("resident", 0, 2)
	for i := 0; i < n; i++ {
		c.Put(c11Key("pre"), i)
	}
	verifAdvance("dt")
	verifGuardNamed("LRUCache", c, "mu")
	k := c11Key("k")
	switch verifIntRange("op", 0, 8) {
	case 0:
		c.Put(k, verifInt("v"))
	case 1:
		c.Get(k)
	case 2:
		c.Delete(k)
	case 3:
		c.Clear()
	case 4:
		c.CleanupExpired()
	case 5:
		_ = c.Size()
	case 6:
		_ = c.Stats()
	case 7:
		_ = c.Keys()
	case 8:
		_ = c.Capacity()
	}
	verifAssert(verifHeldNamed(c, "mu") == 0, "C11: every path releases the lock it took")
	verifReach("called")
}

func VerifHarness_C11_SearchCache() {
	sc := NewSearchCache(2, time.Duration(verifInt64("ttl")))
	o := SearchOptions{Limit: 3}
	res := []SearchResult{{Command: "x", Score: 1}}
	if verifBool("warm") {
		sc.Put("aa", o, res)
	}
	verifAdvance("dt")
	verifGuardNamed("LRUCache", sc.cache, "mu")
	// the search cache's own fields (it has no lock of its own): nothing in them may be written
	// outside the LRU's lock by the operations searches perform
	verifGuardNamed("SearchCache", sc, "mu")
	q := []string{"aa", "bb"}[verifIntRange("q", 0, 1)]
	switch verifIntRange("op", 0, 6) {
	case 0:
		sc.Get(q, o)
	case 1:
		sc.Put(q, o, res)
	case 2:
		sc.Invalidate()
	case 3:
		sc.CleanupExpired()
	case 4:
		_ = sc.Stats()
	case 5:
		_ = sc.Size()
	case 6:
		sc.InvalidatePattern("search:")
	}
	verifAssert(verifHeldNamed(sc.cache, "mu") == 0, "C11: every path releases the lock it took")
	verifReach("called")
}
