package cache

import (
	"time"
)

// C12: one inductive step of the LRU from an arbitrary valid state, against a
// ghost model kept in recency order (index 0 = most recently used).

type c12Ghost struct {
	keys                    []string
	vals                    []int
	first                   []time.Time // first insertion since last absence
	last                    []time.Time // last store
	impl                    []time.Time // CreatedAt as held by the implementation (first <= impl <= last)
	hits, misses, evictions int64
}

func c12Build(capN int, ttl time.Duration, m int) (*LRUCache, *c12Ghost) {
	c := NewLRUCache(capN, ttl)
	g := &c12Ghost{}
	for j := 0; j < m; j++ {
		k := verifString("key", 1)
		for l := 0; l < j; l++ {
			verifAssume(g.keys[l] != k)
		}
		v := verifInt("val")
		first := verifTimeAgo("first")
		impl := verifTimeAgo("impl")
		last := verifTimeAgo("last")
		verifAssume(!first.After(impl) && !impl.After(last))
		e := &Entry{Key: k, Value: v, CreatedAt: impl, AccessedAt: last, AccessCount: 1}
		el := c.evictList.PushBack(e)
		c.items[k] = el
		g.keys = append(g.keys, k)
		g.vals = append(g.vals, v)
		g.first = append(g.first, first)
		g.last = append(g.last, last)
		g.impl = append(g.impl, impl)
	}
	g.hits, g.misses, g.evictions = verifInt64("hits"), verifInt64("misses"), verifInt64("evictions")
	verifAssume(g.hits >= 0 && g.misses >= 0 && g.evictions >= 0)
	verifAssume(g.hits < 1<<60 && g.misses < 1<<60 && g.evictions < 1<<60)
	c.hits, c.misses, c.evictions = g.hits, g.misses, g.evictions
	return c, g
}

func (g *c12Ghost) find(k string) int {
	for j := range g.keys {
		if g.keys[j] == k {
			return j
		}
	}
	return -1
}

func (g *c12Ghost) remove(j int) {
	g.keys = append(g.keys[:j:j], g.keys[j+1:]...)
	g.vals = append(g.vals[:j:j], g.vals[j+1:]...)
	g.first = append(g.first[:j:j], g.first[j+1:]...)
	g.last = append(g.last[:j:j], g.last[j+1:]...)
	g.impl = append(g.impl[:j:j], g.impl[j+1:]...)
}

func (g *c12Ghost) pushFront(k string, v int, first, last time.Time) {
	g.keys = append([]string{k}, g.keys...)
	g.vals = append([]int{v}, g.vals...)
	g.first = append([]time.Time{first}, g.first...)
	g.last = append([]time.Time{last}, g.last...)
	g.impl = append([]time.Time{first}, g.impl...)
}

func (g *c12Ghost) moveFront(j int) {
	k, v, f, l, im := g.keys[j], g.vals[j], g.first[j], g.last[j], g.impl[j]
	g.remove(j)
	g.pushFront(k, v, f, l)
	g.impl[0] = im
}

// c12Agree checks the representation invariant and agreement with the ghost.
func c12Agree(c *LRUCache, g *c12Ghost, capN int, what string) {
	verifAssert(c.evictList.Len() == len(g.keys), "C12: list length equals model size after "+what)
	verifAssert(len(c.items) == len(g.keys), "C12: map size equals model size after "+what)
	verifAssert(len(g.keys) <= capN, "C12: never more entries than capacity after "+what)
	j := 0
	for el := c.evictList.Front(); el != nil && j < len(g.keys); el = el.Next() {
		e := el.Value.(*Entry)
		verifAssert(e.Key == g.keys[j], "C12: recency order matches the model after "+what)
		iv, ok := e.Value.(int)
		verifAssert(ok && iv == g.vals[j], "C12: stored value matches the model after "+what)
		verifAssert(!g.first[j].After(e.CreatedAt) && !e.CreatedAt.After(g.last[j]),
			"C12: creation stamp lies between first insertion and last store after "+what)
		me, present := c.items[e.Key]
		verifAssert(present && me == el, "C12: map points at the list element after "+what)
		j++
	}
	verifAssert(c.hits == g.hits && c.misses == g.misses && c.evictions == g.evictions, "C12: hit/miss/eviction counters match after "+what)
}

func c12Step(c *LRUCache, g *c12Ghost, capN int, ttl time.Duration, op int) {
	k := verifString("k", 1)
	v := verifInt("v")
	verifAdvance("dt")
	now := time.Now()
	expired := func(t time.Time) bool { return ttl > 0 && now.Sub(t) > ttl }
	switch op {
	case 0: // put
		c.Put(k, v)
		if j := g.find(k); j >= 0 {
			g.vals[j] = v
			g.last[j] = now
			g.moveFront(j)
			// implementation may keep or refresh the stamp; both lie in [first,last]
		} else {
			if len(g.keys) == capN {
				victim := g.keys[len(g.keys)-1]
				g.remove(len(g.keys) - 1)
				g.evictions++
				_, still := c.items[victim]
				verifAssert(!still, "C12: inserting into a full cache discards the least recently used entry")
			}
			g.pushFront(k, v, now, now)
		}
		c12Agree(c, g, capN, "put")
	case 1: // get
		got, ok := c.Get(k)
		j := g.find(k)
		if j < 0 {
			verifAssert(!ok && got == nil, "C12: lookup of an absent key misses")
			g.misses++
		} else if ok {
			iv, isInt := got.(int)
			verifAssert(isInt && iv == g.vals[j], "C12: a hit returns the value most recently stored")
			verifAssert(!expired(g.last[j]), "C12: a hit never returns a value stored longer ago than the lifetime")
			g.hits++
			g.moveFront(j)
		} else {
			verifAssert(expired(g.first[j]), "C12: a resident key misses only when it is older than the lifetime")
			g.misses++
			g.remove(j)
		}
		c12Agree(c, g, capN, "get")
	case 2: // delete
		ok := c.Delete(k)
		j := g.find(k)
		verifAssert(ok == (j >= 0), "C12: delete reports presence")
		if j >= 0 {
			g.remove(j)
		}
		c12Agree(c, g, capN, "delete")
	case 3: // clear
		c.Clear()
		*g = c12Ghost{}
		c12Agree(c, g, capN, "clear")
	case 4: // cleanup
		n := c.CleanupExpired()
		removed := 0
		for j := len(g.keys) - 1; j >= 0; j-- {
			if _, still := c.items[g.keys[j]]; !still {
				verifAssert(expired(g.first[j]), "C12: a sweep removes only expired entries")
				g.remove(j)
				removed++
			}
		}
		verifAssert(n == removed, "C12: a sweep reports the number of entries it removed")
		c12Agree(c, g, capN, "cleanup")
	case 5: // size
		verifAssert(c.Size() == len(g.keys), "C12: Size equals the number of entries")
	case 6: // stats
		s := c.Stats()
		verifAssert(s.Hits == g.hits && s.Misses == g.misses && s.Evictions == g.evictions, "C12: Stats counters equal what happened")
		verifAssert(s.Size == len(g.keys) && s.Capacity == capN, "C12: Stats size and capacity")
	case 7: // keys
		ks := c.Keys()
		verifAssert(len(ks) == len(g.keys), "C12: Keys lists every entry once")
		for _, gk := range g.keys {
			found := false
			for _, x := range ks {
				if x == gk {
					found = true
				}
			}
			verifAssert(found, "C12: Keys contains every resident key")
		}
	case 8:
		verifAssert(c.Capacity() == capN, "C12: Capacity is the configured capacity")
	}
}

func c12StepHarness(maxCap int) {
	capN := verifIntRange("cap", 1, maxCap)
	ttl := time.Duration(verifInt64("ttl"))
	m := verifIntRange("resident", 0, capN)
	c, g := c12Build(capN, ttl, m)
	op := verifIntRange("op", 0, 8)
	c12Step(c, g, capN, ttl, op)
	verifReach("step-done")
}

func VerifHarness_C12_Step2() { c12StepHarness(2) }
func VerifHarness_C12_Step3() { c12StepHarness(3) }

// Capacity 3 with free room or full, reads and writes only: a cache that is not yet full
// must keep its recency order too (the order is observed through the ghost after the step
// and through the victim of a later overflow in the history harnesses).
func VerifHarness_C12_Step3PG() {
	capN := 3
	ttl := time.Duration(verifInt64("ttl"))
	m := verifIntRange("resident", 2, 3)
	c, g := c12Build(capN, ttl, m)
	op := verifIntRange("op", 0, 1)
	c12Step(c, g, capN, ttl, op)
	verifReach("step-done")
}

// Default capacity for non-positive arguments.
func VerifHarness_C12_DefaultCap() {
	n := verifInt("cap")
	c := NewLRUCache(n, 0)
	if n <= 0 {
		verifAssert(c.Capacity() == 100, "C12: non-positive capacity is replaced by the default 100")
	} else {
		verifAssert(c.Capacity() == n, "C12: positive capacity is kept")
	}
	verifReach("step-done")
}

// Bounded histories from the empty cache (guards the invariant against
// being vacuous or too strong): k operations with symbolic arguments.
func c12History(capN, steps int) {
	ttl := time.Duration(verifInt64("ttl"))
	c := NewLRUCache(capN, ttl)
	g := &c12Ghost{}
	for s := 0; s < steps; s++ {
		op := verifIntRange("op", 0, 4)
		c12Step(c, g, capN, ttl, op)
	}
	verifReach("step-done")
}

func VerifHarness_C12_Hist3() { c12History(2, 3) }
func VerifHarness_C12_Hist4() { c12History(2, 4) }

// "a lookup returns the value most recently stored under that key" at the search-cache layer:
// the stored list is the cache's own (the caller goes on using its slice), also under churn
func VerifHarness_C12_StoredCopy() { VerifHarness_C05_SmallCache() }
