package history

import "time"

// ---- C09 (history): an interrupted or failed write never damages the history ----

func c09SameEntries(a, b []SearchEntry) bool {
	if len(a) != len(b) {
		return false
	}
	for i := range a {
		if a[i].Query != b[i].Query || a[i].ResultsCount != b[i].ResultsCount {
			return false
		}
	}
	return true
}

// op 0: the history update made by every search; op 1: Clear
func c09History(op int) {
	path := verifFSRoot() + "/cfg/wtf/search_history.json"
	old := &SearchHistory{Entries: []SearchEntry{{Query: "old one", ResultsCount: 1}, {Query: "old two", ResultsCount: 2}}, MaxSize: 100}
	verifFSPutDoc(path, "json", old)
	sh := NewSearchHistory(path, 100)
	verifAssert(sh.Load() == nil, "C09: the existing history loads")
	var err error
	mode := verifIntRange("event", 1, 2) // 1: the write call fails after k bytes, 2: the process is killed after k bytes
	k := verifInt("k")
	verifAssume(k >= 0)
	verifFSWritePlan(path, mode, k)
	killed := verifCatch(func() {
		if op == 0 {
			sh.AddEntry("new query", 3, "", 5*time.Millisecond)
			err = sh.Save()
		} else {
			err = sh.Clear()
		}
	})
	verifFSWriteUnlimit()
	want := sh.Entries // what a completed write would have stored
	back := NewSearchHistory(path, 100)
	lerr := back.Load()
	isOld := lerr == nil && c09SameEntries(back.Entries, old.Entries)
	isNew := lerr == nil && c09SameEntries(back.Entries, want)
	// one combined obligation: a torn file may fail to parse or parse to something else
	verifAssert(isOld || isNew, "C09: the history file holds the complete previous or the complete new content")
	if !killed && err == nil {
		verifAssert(isNew, "C09: a write reported as successful took effect")
		verifReach("completed")
	} else {
		verifReach("interrupted")
	}
}

// a killed or failed save followed by a later, shorter one (Clear): nothing of the
// interrupted write may leak into the file
func VerifHarness_C09_HistoryThenClear() {
	path := verifFSRoot() + "/cfg/wtf/search_history.json"
	old := &SearchHistory{Entries: []SearchEntry{{Query: "old one", ResultsCount: 1}, {Query: "old two", ResultsCount: 2}}, MaxSize: 100}
	verifFSPutDoc(path, "json", old)
	sh := NewSearchHistory(path, 100)
	verifAssert(sh.Load() == nil, "C09: the existing history loads")
	mode := verifIntRange("event", 1, 2)
	k := verifInt("k")
	verifAssume(k >= 0)
	verifFSWritePlan(path, mode, k)
	_ = verifCatch(func() {
		sh.AddEntry("new query", 3, "", 5*time.Millisecond)
		_ = sh.Save()
	})
	verifFSWriteUnlimit()
	later := NewSearchHistory(path, 100)
	verifAssert(later.Load() == nil, "C09: the history still loads after the interrupted save")
	verifAssert(later.Clear() == nil, "C09: an undisturbed clear succeeds")
	back := NewSearchHistory(path, 100)
	lerr := back.Load()
	verifAssert(lerr == nil && len(back.Entries) == 0, "C09: after a later undisturbed clear the history file holds exactly the new (empty) log")
	verifReach("completed")
	verifReach("interrupted")
}

func VerifHarness_C09_HistorySave()  { c09History(0) }
func VerifHarness_C09_HistoryClear() { c09History(1) }

// a failed (or cut) save followed, in the same process, by a later save that completes: the file
// then holds exactly the later log - nothing of the interrupted attempt leaks into it
func VerifHarness_C09_HistoryTwoSaves() {
	path := verifFSRoot() + "/cfg/wtf/search_history.json"
	old := &SearchHistory{Entries: []SearchEntry{{Query: "old one", ResultsCount: 1}, {Query: "old two", ResultsCount: 2}}, MaxSize: 100}
	verifFSPutDoc(path, "json", old)
	sh := NewSearchHistory(path, 100)
	verifAssert(sh.Load() == nil, "C09: the existing history loads")
	k := verifInt("k")
	verifAssume(k >= 0)
	verifFSWritePlan(path, 1, k) // the write call fails after k bytes
	sh.AddEntry("new query", 3, "", 5*time.Millisecond)
	err1 := sh.Save()
	verifFSWriteUnlimit()
	if verifBool("anotherSearch") {
		sh.AddEntry("later query", 1, "", 5*time.Millisecond)
	}
	err2 := sh.Save()
	verifAssert(err2 == nil, "C09: an undisturbed save succeeds")
	back := NewSearchHistory(path, 100)
	lerr := back.Load()
	verifAssert(lerr == nil && c09SameEntries(back.Entries, sh.Entries), "C09: after a later undisturbed save the history file holds exactly the new log (everything saved remains loadable)")
	if err1 != nil {
		verifReach("interrupted")
	}
	verifReach("completed")
}
