package history

import "time"

// ---- C16: search history is a bounded, ordered, faithfully persisted log ----

func c16Entries(n int) []SearchEntry {
	out := make([]SearchEntry, 0, n)
	for i := 0; i < n; i++ {
		out = append(out, SearchEntry{Query: verifString("hq", 1), Timestamp: verifTimeAgo("age"), ResultsCount: verifIntRange("count", 0, 2), Context: "", Duration: 5})
	}
	return out
}

// (1) whatever the file holds, recording a search neither crashes nor loses the search
func VerifHarness_C16_AnyFile() {
	path := verifFSRoot() + "/cfg/wtf/search_history.json"
	switch verifIntRange("file", 0, 4) {
	case 4: // well-formed JSON with a wrongly typed field: decoding fills the rest, then fails
		verifFSPutDocBroken(path, "json", &SearchHistory{Entries: c16Entries(verifIntRange("stored", 0, 1)), MaxSize: verifInt("max_size")}, "entries")
	case 0: // missing
	case 1:
		verifFSPutBytes(path, nil) // empty
	case 2:
		verifFSPutGarbage(path) // damaged
	case 3:
		verifFSPutDoc(path, "json", &SearchHistory{Entries: c16Entries(verifIntRange("stored", 0, 2)), MaxSize: verifInt("max_size")})
	}
	sh := NewSearchHistory(path, 100)
	_ = sh.Load() // the search command ignores load errors
	q := verifString("q", 1)
	sh.AddEntry(q, 3, "", 7*time.Millisecond)
	_ = sh.Save()
	verifAssert(len(sh.Entries) >= 1, "C16: the search just made is recorded")
	if len(sh.Entries) >= 1 {
		verifAssert(sh.Entries[len(sh.Entries)-1].Query == q, "C16: the newest entry is the search just made")
	}
	verifAssert(sh.MaxSize >= 1, "C16: the bound in force is a sensible maximum")
	verifAssert(len(sh.Entries) <= sh.MaxSize, "C16: never more entries than the maximum")
	verifReach("recorded")
}

// (2) one step from any valid state against a reference log; then a save / load round trip
func c16Step(maxMax int) {
	path := verifFSRoot() + "/cfg/wtf/search_history.json"
	maxSize := verifIntRange("max_size", 1, maxMax)
	n := verifIntRange("stored", 0, maxSize)
	sh := NewSearchHistory(path, maxSize)
	sh.Entries = c16Entries(n)
	for i := 1; i < n; i++ {
		verifAssume(!sh.Entries[i-1].Timestamp.After(sh.Entries[i].Timestamp)) // chronological
	}
	ref := append([]SearchEntry(nil), sh.Entries...)
	q := verifString("q", 1)
	verifAdvance("dt")
	sh.AddEntry(q, 2, "ctx", 9*time.Millisecond)
	// reference: collapse an immediate repeat, else append and drop the oldest
	if len(ref) > 0 && ref[len(ref)-1].Query == q {
		ref = ref[:len(ref)-1]
	}
	ref = append(ref, SearchEntry{Query: q, ResultsCount: 2, Context: "ctx", Duration: 9})
	if len(ref) > maxSize {
		ref = ref[len(ref)-maxSize:]
	}
	verifAssert(len(sh.Entries) == len(ref), "C16: the log holds the most recent searches, immediate repeats collapsed, never more than the maximum")
	if len(sh.Entries) == len(ref) {
		for i := range ref {
			e := sh.Entries[i]
			verifAssert(e.Query == ref[i].Query && e.ResultsCount == ref[i].ResultsCount && e.Context == ref[i].Context && e.Duration == ref[i].Duration,
				"C16: entries are the expected ones in chronological order")
			if i > 0 {
				verifAssert(!sh.Entries[i-1].Timestamp.After(e.Timestamp), "C16: entries stay in chronological order")
			}
		}
	}
	// persistence round trip
	if err := sh.Save(); err == nil {
		back := NewSearchHistory(path, 100)
		lerr := back.Load()
		verifAssert(lerr == nil, "C16: a saved history loads")
		verifAssert(len(back.Entries) == len(sh.Entries), "C16: saving and loading gives back the same entries (count)")
		if len(back.Entries) == len(sh.Entries) {
			for i := range sh.Entries {
				a, b := sh.Entries[i], back.Entries[i]
				verifAssert(a.Query == b.Query && a.ResultsCount == b.ResultsCount && a.Context == b.Context && a.Duration == b.Duration,
					"C16: saving and loading gives back the same entries")
			}
		}
		verifAssert(back.MaxSize == sh.MaxSize, "C16: the maximum survives a round trip")
		verifReach("roundtrip")
	}
	verifReach("stepped")
}

func VerifHarness_C16_Step2() { c16Step(2) }
func VerifHarness_C16_Step3() { c16Step(3) }

// (3) the derived views agree with the entries
func c16Views(n int) { c16ViewsOn(c16Entries(n)) }

func c16ViewsOn(entries []SearchEntry) {
	sh := NewSearchHistory("/nowhere", 100)
	sh.Entries = entries
	c16CheckViews(sh)
}

// c16CheckViews: the three views of an instance agree with the entries it holds now
func c16CheckViews(sh *SearchHistory) { c16CheckViewsL(sh, verifIntRange("limit", 0, len(sh.Entries)+1)) }

func c16CheckViewsL(sh *SearchHistory, limit int) {
	n := len(sh.Entries)
	eff := limit
	if eff <= 0 {
		eff = 10
	}
	// distinct queries, newest first
	var distinct []string
	for i := n - 1; i >= 0; i-- {
		dup := false
		for _, d := range distinct {
			if d == sh.Entries[i].Query {
				dup = true
			}
		}
		if !dup {
			distinct = append(distinct, sh.Entries[i].Query)
		}
	}
	recent := sh.GetRecentQueries(limit)
	want := distinct
	if len(want) > eff {
		want = want[:eff]
	}
	verifAssert(len(recent) == len(want), "C16: recent queries are the distinct queries, newest first, up to the limit (count)")
	if len(recent) == len(want) {
		for i := range want {
			verifAssert(recent[i] == want[i], "C16: recent queries are the distinct queries, newest first")
		}
	}
	top := sh.GetTopQueries(limit)
	verifAssert(len(top) <= eff && len(top) <= len(distinct), "C16: top queries respect the limit")
	sum := 0
	for i, t := range top {
		c := 0
		for _, e := range sh.Entries {
			if e.Query == t.Query {
				c++
			}
		}
		verifAssert(t.Count == c, "C16: a top query's frequency is its number of entries")
		sum += t.Count
		if i > 0 {
			verifAssert(top[i-1].Count >= t.Count, "C16: top queries are ordered by frequency")
		}
		for j := 0; j < i; j++ {
			verifAssert(top[j].Query != t.Query, "C16: top queries are distinct")
		}
	}
	if eff >= len(distinct) {
		verifAssert(sum == n, "C16: frequencies sum to the entry count")
	}
	st := sh.GetStats()
	verifAssert(st.TotalSearches == n, "C16: statistics count every entry")
	verifAssert(st.UniqueQueries == len(distinct), "C16: statistics count distinct queries")
	verifReach("views")
}

func VerifHarness_C16_Views2() { c16Views(verifIntRange("n", 0, 2)) }
func VerifHarness_C16_Views3() { c16Views(3) }

// longer logs over a 3-query alphabet: repeats that are not adjacent, distinct queries further
// back than the newest `limit` entries
func VerifHarness_C16_Views5() {
	n := verifIntRange("n", 4, 5)
	var entries []SearchEntry
	for i := 0; i < n; i++ {
		entries = append(entries, SearchEntry{Query: []string{"a", "b", "c"}[verifIntRange("hq", 0, 2)], Timestamp: time.Unix(int64(1000+i), 0), ResultsCount: 1, Duration: 5})
	}
	if verifBool("noTimestamps") { // a hand-written or older file: entries without a timestamp
		for i := range entries {
			entries[i].Timestamp = time.Time{}
		}
	}
	c16ViewsOn(entries)
}

// loading replaces what an instance holds by what the file holds — also when the file was
// saved by another instance with fewer (or no) entries
func VerifHarness_C16_ReloadOther() {
	path := verifFSRoot() + "/state/history.json"
	live := NewSearchHistory(path, 5)
	live.Entries = c16Entries(verifIntRange("held", 0, 2))
	for k := range live.Entries {
		live.Entries[k].Context, live.Entries[k].Duration = "in a go project", 7
	}
	other := NewSearchHistory(path, 5)
	other.Entries = c16Entries(verifIntRange("stored", 0, 2))
	for k := range other.Entries {
		other.Entries[k].Context, other.Entries[k].Duration = "", 0 // fields the file format omits when empty
	}
	if verifBool("cleared") {
		if err := other.Clear(); err != nil {
			return
		}
	} else if err := other.Save(); err != nil {
		return
	}
	lerr := live.Load()
	verifAssert(lerr == nil, "C16: a saved history loads")
	verifAssert(len(live.Entries) == len(other.Entries), "C16: saving and loading gives back the same entries (count; a loaded instance holds what the file holds)")
	if len(live.Entries) == len(other.Entries) {
		for i := range other.Entries {
			verifAssert(live.Entries[i].Query == other.Entries[i].Query, "C16: saving and loading gives back the same entries")
			verifAssert(live.Entries[i].Context == other.Entries[i].Context && live.Entries[i].Duration == other.Entries[i].Duration && live.Entries[i].ResultsCount == other.Entries[i].ResultsCount,
				"C16: saving and loading gives back the same entries (every field, also those the file omits when empty)")
		}
	}
	st := live.GetStats()
	verifAssert(st.TotalSearches == len(other.Entries), "C16: statistics agree with the stored entries")
	verifReach("roundtrip")
}

// consecutive queries that differ only in letter case are different searches
func VerifHarness_C16_CaseRepeat() {
	sh := NewSearchHistory("/nowhere", 10)
	first := []string{"ls -R", "Kelvin", "abc"}[verifIntRange("first", 0, 2)]
	second := []string{"ls -r", "kelvin", "abc", "ABC"}[verifIntRange("second", 0, 3)]
	sh.AddEntry(first, 1, "", time.Millisecond)
	sh.AddEntry(second, 1, "", time.Millisecond)
	want := 2
	if first == second {
		want = 1
	}
	verifAssert(len(sh.Entries) == want, "C16: the log holds the most recent searches, immediate repeats (of the same query) collapsed")
	verifAssert(sh.GetStats().TotalSearches == want, "C16: statistics count every entry")
	verifReach("stepped")
}

// more distinct queries than any default limit
func VerifHarness_C16_ManyDistinct() {
	n := verifIntRange("n", 9, 12)
	var entries []SearchEntry
	for i := 0; i < n; i++ {
		entries = append(entries, SearchEntry{Query: "q" + string(rune('a'+i)), Timestamp: time.Unix(int64(1000+i), 0), ResultsCount: 1, Duration: 5})
	}
	sh := NewSearchHistory("/nowhere", 100)
	sh.Entries = entries
	st := sh.GetStats()
	verifAssert(st.TotalSearches == n, "C16: statistics count every entry")
	verifAssert(st.UniqueQueries == n, "C16: statistics count distinct queries")
	verifAssert(len(sh.GetRecentQueries(n)) == n, "C16: recent queries are the distinct queries, newest first, up to the limit (count)")
	top := sh.GetTopQueries(n)
	verifAssert(len(top) == n, "C16: top queries respect the limit")
	verifReach("views")
}

// queries longer than any display width: stored as recorded, an immediate repeat still collapses
func VerifHarness_C16_LongQueryRepeat() {
	path := verifFSRoot() + "/state/history.json"
	sh := NewSearchHistory(path, 3)
	n := []int{255, 256, 257, 347, 1000}[verifIntRange("len", 0, 4)]
	q := ""
	for i := 0; i < n; i++ {
		q += string(rune('a' + i%7))
	}
	if verifBool("nonASCII") {
		q = "a"
		for i := 0; i < 200; i++ {
			q += "é"
		}
	}
	sh.AddEntry("first", 1, "", time.Millisecond)
	sh.AddEntry(q, 1, "", time.Millisecond)
	sh.AddEntry(q, 2, "", time.Millisecond)
	verifAssert(len(sh.Entries) == 2, "C16: an immediately repeated query updates the last entry instead of adding one")
	verifAssert(sh.Entries[len(sh.Entries)-1].Query == q, "C16: the entry holds the query that was recorded")
	if err := sh.Save(); err == nil {
		back := NewSearchHistory(path, 3)
		verifAssert(back.Load() == nil && len(back.Entries) == len(sh.Entries), "C16: saving and loading gives back the same entries (count)")
		if len(back.Entries) == len(sh.Entries) {
			for i := range sh.Entries {
				verifAssert(back.Entries[i].Query == sh.Entries[i].Query, "C16: saving and loading gives back the same entries")
			}
		}
		verifReach("roundtrip")
	}
	verifReach("stepped")
}

// the views agree with the entries held *now*: views are taken, then the instance goes through
// one more operation (a recorded search, a clear, a load of a missing / empty / damaged /
// well-formed / half-decodable file, a save), then the views are taken again
func VerifHarness_C16_ViewsAcrossOps() {
	path := verifFSRoot() + "/state/history.json"
	abc := []string{"a", "b", "c"}
	stamp := int64(0)
	mk := func(name string, n int) []SearchEntry {
		var es []SearchEntry
		for k := 0; k < n; k++ {
			stamp++
			es = append(es, SearchEntry{Query: abc[verifIntRange(name, 0, 2)], Timestamp: time.Unix(1700000000+60*stamp, 0), ResultsCount: 1})
		}
		return es
	}
	sh := NewSearchHistory(path, 10)
	sh.Entries = mk("held", verifIntRange("n", 1, 2))
	c16CheckViewsL(sh, 0)
	switch verifIntRange("op", 0, 7) {
	case 0:
		sh.AddEntry(abc[verifIntRange("added", 0, 2)], 2, "", time.Millisecond)
	case 1:
		_ = sh.Clear()
	case 2: // missing file
		_ = sh.Load()
	case 3:
		verifFSPutBytes(path, nil)
		_ = sh.Load()
	case 4:
		verifFSPutGarbage(path)
		_ = sh.Load()
	case 5:
		verifFSPutDoc(path, "json", &SearchHistory{Entries: mk("stored", verifIntRange("m", 0, 2)), MaxSize: 10})
		_ = sh.Load()
	case 6:
		verifFSPutDocBroken(path, "json", &SearchHistory{Entries: mk("stored", verifIntRange("m", 0, 1)), MaxSize: 10}, "max_size")
		_ = sh.Load()
	case 7:
		_ = sh.Save()
	}
	c16CheckViews(sh)
	verifReach("views")
}
