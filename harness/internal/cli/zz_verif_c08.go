package cli

import (
	"github.com/Vedant9500/WTF/internal/database"
	"github.com/spf13/cobra"
	"strings"
)

// ---- C08 (kernel) / C09 (notebook): the read-modify-write of the personal notebook ----

func c08Atom(name string) string {
	w := verifString(name, 1)
	verifAssume(w[0] >= 'a')
	verifAssume(w[0] <= 'z')
	return w
}

func c08Entry(name string) database.Command {
	c := database.Command{
		Command:     c08Atom(name + ".cmd"),
		Description: c08Atom(name + ".desc"),
		Niche:       c08Atom(name + ".niche"),
		Pipeline:    verifBool(name + ".pipeline"),
		Tags:        []string{"tg"}, // a field the save commands never set themselves (hand-edited notebooks have it)
	}
	if verifBool(name + ".hasKw") {
		c.Keywords = []string{c08Atom(name + ".kw")}
	}
	if verifBool(name + ".hasPlat") {
		c.Platform = []string{"linux"}
	}
	return c
}

func c08SameEntry(a, b database.Command) bool {
	if a.Command != b.Command || a.Description != b.Description || a.Niche != b.Niche || a.Pipeline != b.Pipeline {
		return false
	}
	if len(a.Keywords) != len(b.Keywords) || len(a.Platform) != len(b.Platform) || len(a.Tags) != len(b.Tags) {
		return false
	}
	for i := range a.Tags {
		if a.Tags[i] != b.Tags[i] {
			return false
		}
	}
	for i := range a.Keywords {
		if a.Keywords[i] != b.Keywords[i] {
			return false
		}
	}
	for i := range a.Platform {
		if a.Platform[i] != b.Platform[i] {
			return false
		}
	}
	return true
}

// one save from an arbitrary notebook (missing, or m entries possibly with duplicate command strings)
func c08Save(maxExisting int) { c08SaveWith(maxExisting, c08Entry) }

func c08SaveWith(maxExisting int, c08Entry func(string) database.Command) {
	path := verifFSRoot() + "/cfg/wtf/personal.yml"
	m := verifIntRange("existing", -1, maxExisting) // -1: no file yet
	var old []database.Command
	if m >= 0 {
		for i := 0; i < m; i++ {
			old = append(old, c08Entry("old"))
		}
		verifFSPutDoc(path, "yaml", old)
	}
	e := c08Entry("new")
	err := saveToPersonalDatabase(path, e)
	verifAssert(err == nil, "C08: saving to a healthy notebook succeeds")
	if err != nil {
		return
	}
	db, lerr := database.LoadDatabase(path)
	verifAssert(lerr == nil, "C08: the notebook loads after a successful save")
	if lerr != nil {
		return
	}
	got := db.Commands
	first := -1
	for i := range old {
		if old[i].Command == e.Command && first < 0 {
			first = i
		}
	}
	if first >= 0 {
		verifAssert(len(got) == len(old), "C08: saving an existing command string replaces instead of duplicating")
		if len(got) == len(old) {
			verifAssert(c08SameEntry(got[first], e), "C08: the replaced entry holds exactly the given fields")
		}
	} else {
		verifAssert(len(got) == len(old)+1, "C08: a new command string is appended")
		if len(got) == len(old)+1 {
			verifAssert(c08SameEntry(got[len(old)], e), "C08: the stored entry holds exactly the given fields")
		}
	}
	for i := range old {
		if i < len(got) && i != first {
			verifAssert(c08SameEntry(got[i], old[i]), "C08: every earlier entry is still there, unchanged and in its original position")
		}
	}
	verifReach("saved")
}

func VerifHarness_C08_Save2() { c08Save(2) }
func VerifHarness_C08_Save3() { c08Save(3) }

// command strings that differ only in white space, letter case or a trailing line break are
// different command strings: each keeps its own entry
func VerifHarness_C08_SaveNearDuplicates() {
	family := []string{"echo hi", "echo  hi", "echo\thi", "Echo hi", "echo hi ", " echo hi", "echo\nhi", "echo hi\n", "echo hi\r\n", "\"echo hi\""}
	n := 0
	c08SaveWith(2, func(name string) database.Command {
		n++
		return database.Command{Command: family[verifIntRange(name+".variant", 0, len(family)-1)], Description: name + string(rune('0'+n))}
	})
}

// the same with the difference a solver variable: "echo" + two arbitrary bytes + "hi" is never the
// string "echo hi" (nor "echo  hi" unless the bytes are two blanks), so it gets its own entry
func VerifHarness_C08_SaveSymbolicGap() {
	path := verifFSRoot() + "/cfg/wtf/personal.yml"
	old := []database.Command{{Command: "echo hi", Description: "one"}, {Command: "echo  hi", Description: "two"}}
	verifFSPutDoc(path, "yaml", old)
	gap := verifString("gap", 2)
	e := database.Command{Command: "echo" + gap + "hi", Description: "three"}
	err := saveToPersonalDatabase(path, e)
	verifAssert(err == nil, "C08: saving to a healthy notebook succeeds")
	if err != nil {
		return
	}
	db, lerr := database.LoadDatabase(path)
	verifAssert(lerr == nil, "C08: the notebook loads after a successful save")
	if lerr != nil {
		return
	}
	got := db.Commands
	if gap == "  " {
		verifAssert(len(got) == 2 && got[1].Description == "three", "C08: saving an existing command string replaces instead of duplicating")
		verifReach("replaced")
	} else {
		verifAssert(len(got) == 3, "C08: a new command string is appended")
		if len(got) == 3 {
			verifAssert(got[2].Command == e.Command && got[2].Description == "three", "C08: the stored entry holds exactly the given fields")
			verifAssert(c08SameEntry(got[0], old[0]) && c08SameEntry(got[1], old[1]), "C08: every earlier entry is still there, unchanged and in its original position")
		}
		verifReach("saved")
	}
}

// ---- C09: an interrupted or failed write never damages the notebook ----
func VerifHarness_C09_Notebook() {
	path := verifFSRoot() + "/cfg/wtf/personal.yml"
	old := []database.Command{{Command: "old one", Description: "first"}, {Command: "old two", Description: "second"}}
	verifFSPutDoc(path, "yaml", old)
	e := database.Command{Command: "new cmd", Description: "third", Keywords: []string{"kw"}}
	mode := verifIntRange("event", 1, 2)
	k := verifInt("k")
	verifAssume(k >= 0)
	verifFSWritePlan(path, mode, k)
	var err error
	killed := verifCatch(func() { err = saveToPersonalDatabase(path, e) })
	verifFSWriteUnlimit()
	db, lerr := database.LoadDatabase(path)
	isOld, isNew := false, false
	if lerr == nil {
		got := db.Commands
		isOld = len(got) == 2 && c08SameEntry(got[0], old[0]) && c08SameEntry(got[1], old[1])
		isNew = len(got) == 3 && c08SameEntry(got[0], old[0]) && c08SameEntry(got[1], old[1]) && c08SameEntry(got[2], e)
	}
	// one combined obligation: a torn file may fail to parse or parse to fewer entries
	verifAssert(isOld || isNew, "C09: the notebook holds the complete previous or the complete new content, and everything saved earlier remains loadable")
	if !killed && err == nil {
		verifAssert(isNew, "C09: a save reported as successful took effect")
		verifReach("completed")
	} else {
		verifReach("interrupted")
	}
}

// ---- the sub-command handlers themselves (cobra dispatch and flag parsing stay outside: the
// handler is called directly, flags are set through the flag set) ----

// c08Flags returns a setter for cmd's flags (registering them first when package init, which
// does that in the real program, has not been executed: the symbolic run)
func c08Flags(cmd *cobra.Command, defs map[string]bool) func(name, val string) {
	fl := cmd.Flags()
	if fl.Lookup("keywords") == nil {
		fl.StringSliceP("keywords", "k", nil, "")
		fl.StringP("category", "c", "", "")
		fl.StringSliceP("platforms", "p", nil, "")
		if defs["description"] {
			fl.String("description", "", "")
		}
		if defs["pipeline"] {
			fl.Bool("pipeline", false, "")
		}
	}
	return func(name, val string) { _ = fl.Set(name, val) }
}

func c08HandlerCheck(stored database.Command, command, desc string, pipeline bool, withCategory bool) {
	verifAssert(stored.Command == command, "C08: the stored entry holds exactly the given command")
	verifAssert(stored.Pipeline == pipeline, "C08: the stored entry keeps its pipeline flag")
	if desc != "" {
		verifAssert(stored.Description == desc, "C08: the stored entry holds exactly the given description")
	}
	if withCategory {
		verifAssert(stored.Niche == "mine", "C08: the stored entry holds exactly the given category")
	} else {
		verifAssert(stored.Niche == "", "C08: the stored entry holds exactly the given category")
	}
}

// `wtf save-pipeline <name> <command>`: with and without a `|` in the command
func VerifHarness_C08_SavePipelineHandler() {
	path := verifFSHome() + "/.config/cmd-finder/personal.yml"
	set := c08Flags(savePipelineCmd, map[string]bool{"description": true})
	withCategory := verifBool("category")
	if withCategory {
		set("category", "mine")
	}
	desc := ""
	if verifBool("description") {
		desc = "my words"
		set("description", desc)
	}
	command := []string{"sort", "cat f | wc -l", "grep x f | sort | head", "awk x f | sed y", "find . | sed s"}[verifIntRange("command", 0, 4)]
	savePipelineCmd.Run(savePipelineCmd, []string{"nm", command})
	db, err := database.LoadDatabase(path)
	verifAssert(err == nil, "C08: the notebook loads after a successful save")
	if err != nil {
		return
	}
	verifAssert(len(db.Commands) == 1, "C08: a new command string is appended")
	if len(db.Commands) == 1 {
		c08HandlerCheck(db.Commands[0], command, desc, true, withCategory)
		// keywords: the documented automatic ones for the tools named in the command, once each
		want := []string{"pipeline", "workflow"}
		if strings.Contains(command, "grep") {
			want = append(want, "search", "filter")
		}
		if strings.Contains(command, "awk") || strings.Contains(command, "sed") {
			want = append(want, "text", "processing")
		}
		if strings.Contains(command, "sort") {
			want = append(want, "sort", "order")
		}
		if strings.Contains(command, "find") {
			want = append(want, "find", "search")
		}
		got := db.Commands[0].Keywords
		verifAssert(len(got) == len(want), "C08: the stored entry holds exactly the given keywords (save-pipeline: the automatic ones)")
		if len(got) == len(want) {
			for k := range want {
				verifAssert(got[k] == want[k], "C08: the stored entry holds exactly the given keywords (save-pipeline: the automatic ones)")
			}
		}
	}
	verifReach("saved")
}

// `wtf save <command> <description>`
func VerifHarness_C08_SaveHandler() {
	path := verifFSHome() + "/.config/cmd-finder/personal.yml"
	set := c08Flags(saveCmd, map[string]bool{"pipeline": true})
	withCategory := verifBool("category")
	if withCategory {
		set("category", "mine")
	}
	pipeline := verifBool("pipeline")
	if pipeline {
		set("pipeline", "true")
	}
	set("keywords", "k1,k2")
	saveCmd.Run(saveCmd, []string{"tar -czf b.tgz d", "make a backup"})
	db, err := database.LoadDatabase(path)
	verifAssert(err == nil, "C08: the notebook loads after a successful save")
	if err != nil {
		return
	}
	verifAssert(len(db.Commands) == 1, "C08: a new command string is appended")
	if len(db.Commands) == 1 {
		c08HandlerCheck(db.Commands[0], "tar -czf b.tgz d", "make a backup", pipeline, withCategory)
		verifAssert(len(db.Commands[0].Keywords) == 2 && db.Commands[0].Keywords[0] == "k1" && db.Commands[0].Keywords[1] == "k2", "C08: the stored entry holds exactly the given keywords")
	}
	verifReach("saved")
}

// C08: "after save reports success, re-loading yields the entry" — also when the write fails
func VerifHarness_C08_SaveUnderFault() {
	path := verifFSRoot() + "/cfg/wtf/personal.yml"
	old := []database.Command{{Command: "old one", Description: "first"}}
	verifFSPutDoc(path, "yaml", old)
	e := database.Command{Command: "new cmd", Description: "second", Keywords: []string{"kw"}}
	k := verifInt("k")
	verifAssume(k >= 0)
	verifFSWritePlan(path, 1, k) // the write stops after k bytes with an error (disk full, quota)
	err := saveToPersonalDatabase(path, e)
	verifFSWriteUnlimit()
	db, lerr := database.LoadDatabase(path)
	if err == nil {
		found := false
		if lerr == nil {
			for _, c := range db.Commands {
				if c.Command == e.Command && c.Description == e.Description {
					found = true
				}
			}
		}
		verifAssert(found, "C08: after a save that reports success, re-loading the notebook yields the entry")
		verifReach("saved")
	} else {
		verifReach("failed")
	}
}

// C09: a save interrupted by a kill, followed by a later save: everything saved earlier remains
func VerifHarness_C09_NotebookTwoSaves() {
	path := verifFSRoot() + "/cfg/wtf/personal.yml"
	old := []database.Command{{Command: "old one", Description: "first"}, {Command: "old two", Description: "second"}}
	verifFSPutDoc(path, "yaml", old)
	e1 := database.Command{Command: "new one", Description: "third"}
	e2 := database.Command{Command: "new two", Description: "fourth"}
	k := verifInt("k")
	verifAssume(k >= 0)
	verifFSWritePlan(path, 2, k) // the process is killed k bytes into its write
	killed := verifCatch(func() { _ = saveToPersonalDatabase(path, e1) })
	verifFSWriteUnlimit()
	err2 := saveToPersonalDatabase(path, e2) // the next `wtf save`, on a healthy disk
	verifAssert(err2 == nil, "C09: a later save on a healthy disk succeeds")
	db, lerr := database.LoadDatabase(path)
	verifAssert(lerr == nil, "C09: everything saved earlier remains loadable")
	if lerr != nil {
		return
	}
	has := func(cmd string) bool {
		for _, c := range db.Commands {
			if c.Command == cmd {
				return true
			}
		}
		return false
	}
	verifAssert(has("old one") && has("old two"), "C09: everything saved earlier remains loadable after an interrupted save and a later one")
	verifAssert(has("new two"), "C09: a save reported as successful took effect")
	if killed {
		verifReach("interrupted")
	} else {
		verifReach("completed")
	}
}
