package cli

import (
	"strings"

	"github.com/Vedant9500/WTF/internal/database"
	"github.com/Vedant9500/WTF/internal/history"
	"github.com/Vedant9500/WTF/internal/recovery"
	"github.com/Vedant9500/WTF/internal/validation"
)

// ---- C17 (as far as it can be decided without the OS process): the whole command tree is
// executed in-process through rootCmd.Execute() — cobra's dispatch, pflag's parsing and the
// handlers run from source; argv, the environment, the home directory and the database file
// are inputs; standard output is captured. ----

// c17Run executes `wtf args...`; it returns the captured standard output and whether a panic escaped.
func c17Run(args ...string) (string, bool) {
	panicked := false
	out := verifCaptureStdout(func() {
		rootCmd.SetArgs(args)
		panicked = verifCatch(func() { _ = rootCmd.Execute() })
	})
	return out, panicked
}

func c17DB(path string) []database.Command {
	cmds := []database.Command{
		{Command: "tar -czf a.tgz dir", Description: "compress directory archive", Keywords: []string{"compress"}, Niche: "files"},
		{Command: "zip -r a.zip dir", Description: "compress directory into zip", Keywords: []string{"zip"}},
		{Command: "gzip file", Description: "compress one file"},
		{Command: "du -sh dir", Description: "size of directory", Platform: []string{"linux"}},
		{Command: "cat f | wc -l", Description: "count lines compress nothing", Pipeline: true},
		// a command longer than 48 bytes but shorter than 45 characters (table format truncation)
		{Command: "圧縮する圧縮する圧縮する圧縮する圧縮する", Description: "compress (ja)", Niche: "日本語日本語日本語"},
	}
	// seven entries that only the last-resort substring search finds for "xq rchiv"
	for i := 0; i < 7; i++ {
		cmds = append(cmds, database.Command{Command: "marchive" + string(rune('a'+i)), Description: "pack"})
	}
	verifFSPutDoc(path, "yaml", cmds)
	return cmds
}

// (1) every documented sub-command starts and finishes without crashing
func VerifHarness_C17_Subcommands() {
	home := verifFSHome()
	dbPath := home + "/db/commands.yml"
	c17DB(dbPath)
	q := []string{"compress directory", "zzqqxx", "a", "Compress  DIRECTORY"}[verifIntRange("query", 0, 3)]
	var args []string
	switch verifIntRange("command", 0, 11) {
	case 0:
		args = []string{q}
	case 1:
		args = []string{"search", q}
	case 2:
		args = []string{"save", "echo hi", "say hi"}
	case 3:
		args = []string{"save", "echo hi", "say hi", "--category", "mine", "--platforms", "linux", "--keywords", "k1,k2", "--pipeline"}
	case 4:
		args = []string{"save-pipeline", "counter", "cat f | wc -l", "--description", "count"}
	case 5:
		args = []string{"pipeline", q}
	case 6:
		args = []string{"history"}
	case 7:
		args = []string{"history", []string{"--top", "--stats", "--clear"}[verifIntRange("historyFlag", 0, 2)]}
	case 8:
		args = []string{"history", "--limit", []string{"0", "-1", "3"}[verifIntRange("historyLimit", 0, 2)], "comp"}
	case 9:
		args = []string{"alias", "list"}
	case 10:
		args = []string{"save"} // too few arguments: a usage error, not a crash
	case 11:
		args = []string{"no-such-flag-cmd", "--bogus"}
	}
	if verifBool("withDatabase") {
		args = append(args, "--database", dbPath)
	}
	if verifBool("verbose") {
		args = append(args, "--verbose")
	}
	_, panicked := c17Run(args...)
	verifAssert(!panicked, "C17: every documented sub-command starts and finishes without crashing")
	verifReach("ran")
}

// (1b) the history sub-command on a history that holds entries (left there by real searches):
// every flag / limit / pattern combination finishes without crashing
func VerifHarness_C17_HistoryCommands() {
	home := verifFSHome()
	dbPath := home + "/db/commands.yml"
	c17DB(dbPath)
	nsearch := verifIntRange("searches", 1, 3)
	for k, q := range []string{"compress directory", "size of directory", "compress file"}[:nsearch] {
		_, p := c17Run(q, "--database", dbPath)
		verifAssert(!p, "C17: every documented sub-command starts and finishes without crashing")
		_ = k
	}
	args := []string{"history"}
	switch verifIntRange("mode", 0, 3) {
	case 1:
		args = append(args, "--top")
	case 2:
		args = append(args, "--stats")
	case 3:
		args = append(args, []string{"comp", "directory", "zzz", "COMPRESS"}[verifIntRange("pattern", 0, 3)])
	}
	if verifBool("withLimit") {
		args = append(args, "--limit", []string{"-5", "-1", "0", "1", "2", "3", "100"}[verifIntRange("limit", 0, 6)])
	}
	_, panicked := c17Run(args...)
	verifAssert(!panicked, "C17: every documented sub-command starts and finishes without crashing")
	verifReach("ran")
}

// (2) a search prints the engine's results, in rank order, never more than the limit in force,
// without escape sequences when colour is off, and leaves one newest history entry
func VerifHarness_C17_SearchOutput() {
	home := verifFSHome()
	dbPath := home + "/db/commands.yml"
	c17DB(dbPath)
	limit := []string{"", "1", "2", "3", "100"}[verifIntRange("limit", 0, 4)]
	format := []string{"", "list", "table"}[verifIntRange("format", 0, 2)]
	q := []string{"compress directory", "compress", "size", "xq rchiv", "compress directory ?"}[verifIntRange("query", 0, 4)]
	args := []string{q, "--database", dbPath}
	if verifBool("searchWord") {
		args = []string{"search", q, "--database", dbPath}
	}
	if limit != "" {
		args = append(args, "--limit", limit)
	}
	if format != "" {
		args = append(args, "--format", format)
	}
	colourOff := false
	switch verifIntRange("colour", 0, 2) {
	case 1:
		args = append(args, "--no-color")
		colourOff = true
	case 2:
		verifSetenv("NO_COLOR", "1")
		colourOff = true
	}
	verbose := verifBool("verbose")
	if verbose {
		args = append(args, "--verbose")
	}
	out, panicked := c17Run(args...)
	verifAssert(!panicked, "C17: every documented sub-command starts and finishes without crashing")
	if colourOff {
		verifAssert(!strings.Contains(out, "\x1b"), "C17: with --no-color or NO_COLOR the output contains no terminal escape sequences")
	}
	// what the engine returns for this request (same database file, same options as the handler)
	eff := 5
	switch limit {
	case "1":
		eff = 1
	case "2":
		eff = 2
	case "3":
		eff = 3
	case "100":
		eff = 100
	}
	db, err := database.LoadDatabase(dbPath)
	if err != nil {
		return
	}
	searched := q
	if cq, verr := validation.ValidateQuery(q); verr == nil {
		searched = cq // the query as cleaned by validation is what is searched, printed and recorded
	}
	want := db.SearchUniversal(searched, database.SearchOptions{Limit: eff, UseFuzzy: true, FuzzyThreshold: -30, UseNLP: true})
	if len(want) == 0 {
		// the last-resort recovery search, with the limit in force
		if rec, rerr := recovery.NewSearchRecovery().RecoverFromSearchFailureWithLimit(searched, nil, db, eff); rerr == nil {
			want = rec
		}
	}
	// printed result rows, in order
	var printed []string
	for _, line := range strings.Split(out, "\n") {
		line = strings.ReplaceAll(strings.ReplaceAll(strings.ReplaceAll(strings.ReplaceAll(line, "\x1b[0m", ""), "\x1b[1m", ""), "\x1b[36m", ""), "\x1b[33m", "")
		for _, c := range db.Commands {
			if format == "table" {
				disp := c.Command // the table shows long commands cut to 45 bytes + "..."
				if len(disp) > 48 {
					disp = disp[:45] + "..."
				}
				if len(line) > 4 && line[0] >= '1' && line[0] <= '9' && strings.HasPrefix(strings.TrimLeft(line[1:], "0123456789 "), disp) {
					printed = append(printed, c.Command)
				}
			} else if len(line) > 3 && line[0] >= '1' && line[0] <= '9' && strings.HasSuffix(line, ". "+c.Command) {
				printed = append(printed, c.Command)
			}
		}
	}
	verifAssert(len(printed) <= eff, "C17: a search never prints more results than the limit in force")
	verifAssert(len(printed) == len(want), "C17: a search prints exactly the engine's results (count)")
	if len(printed) == len(want) {
		for k := range want {
			verifAssert(printed[k] == want[k].Command.Command, "C17: a search prints exactly the engine's results in rank order")
		}
	}
	// the history file: exactly one (newest) entry, for this query
	sh := history.NewSearchHistory(history.DefaultHistoryPath(), 100)
	lerr := sh.Load()
	verifAssert(lerr == nil && len(sh.Entries) == 1, "C17: each search leaves exactly one corresponding newest entry in the history")
	if lerr == nil && len(sh.Entries) == 1 {
		verifAssert(sh.Entries[0].Query == searched && sh.Entries[0].ResultsCount == len(want), "C17: the history entry corresponds to the search (query, number of results)")
	}
	verifReach("searched")
	if len(want) > 0 {
		verifReach("nonempty")
	}
}

// C14 at the command line: the query that is searched, printed and recorded is exactly the
// validated one
func VerifHarness_C14_CLIQuery() {
	home := verifFSHome()
	dbPath := home + "/db/commands.yml"
	c17DB(dbPath)
	raw := []string{"compress directory ?", "compress files ...", "  compress   directory  ", "compress!", "what.is.this"}[verifIntRange("raw", 0, 4)]
	want, verr := validation.ValidateQuery(raw)
	out, panicked := c17Run(raw, "--database", dbPath)
	verifAssert(!panicked, "C17: every documented sub-command starts and finishes without crashing")
	if verr != nil {
		return
	}
	verifAssert(strings.Contains(out, "Searching for: "+want+"\n"), "C14: the command searches for the query exactly as validation returned it")
	sh := history.NewSearchHistory(history.DefaultHistoryPath(), 100)
	if sh.Load() == nil && len(sh.Entries) == 1 {
		verifAssert(sh.Entries[0].Query == want, "C14: the recorded query is the validated query (clean, idempotent under re-validation)")
		again, aerr := validation.ValidateQuery(sh.Entries[0].Query)
		verifAssert(aerr == nil && again == sh.Entries[0].Query, "C14: an already validated query comes back unchanged")
	}
	verifReach("accepted")
}

// the same query searched twice in a row (with another limit): the newest history entry
// describes the second search
func VerifHarness_C17_RepeatedSearch() {
	home := verifFSHome()
	dbPath := home + "/db/commands.yml"
	c17DB(dbPath)
	q := []string{"compress", "compress directory"}[verifIntRange("query", 0, 1)]
	l1 := []string{"1", "2"}[verifIntRange("firstLimit", 0, 1)]
	l2 := []string{"3", "1"}[verifIntRange("secondLimit", 0, 1)]
	_, p1 := c17Run(q, "--database", dbPath, "--limit", l1)
	out, p2 := c17Run(q, "--database", dbPath, "--limit", l2)
	verifAssert(!p1 && !p2, "C17: every documented sub-command starts and finishes without crashing")
	printed := 0
	for _, line := range strings.Split(out, "\n") {
		if strings.Contains(line, "Description:") {
			printed++
		}
	}
	sh := history.NewSearchHistory(history.DefaultHistoryPath(), 100)
	lerr := sh.Load()
	verifAssert(lerr == nil && len(sh.Entries) >= 1, "C17: each search leaves exactly one corresponding newest entry in the history")
	if lerr == nil && len(sh.Entries) >= 1 {
		last := sh.Entries[len(sh.Entries)-1]
		verifAssert(last.Query == q && last.ResultsCount == printed, "C17: the newest history entry corresponds to the latest search (query, number of results)")
		verifAssert(len(sh.Entries) == 1, "C17: an immediately repeated query updates the newest entry instead of adding one")
	}
	verifReach("searched")
}

// C20 at the command line, on the last-resort path: padded / re-spaced queries print what the
// clean spelling prints (every matching command is filtered out by platform, so the recovery
// search answers)
func VerifHarness_C20_CLIPadded() {
	home := verifFSHome()
	dbPath := home + "/db/commands.yml"
	cmds := []database.Command{
		{Command: "ipconfig /all", Description: "show network config", Platform: []string{"windows"}},
		{Command: "show ipconfig help", Description: "config help", Platform: []string{"windows"}},
		{Command: "netsh show config", Description: "show things", Platform: []string{"windows"}},
	}
	verifFSPutDoc(dbPath, "yaml", cmds)
	base := []string{"ipconfig", "show config"}[verifIntRange("query", 0, 1)]
	variant := []string{" " + base, base + "  ", "\t" + base, strings.ReplaceAll(base, " ", "  ")}[verifIntRange("variant", 0, 3)]
	rows := func(out string) []string {
		var r []string
		for _, line := range strings.Split(out, "\n") {
			for _, c := range cmds {
				if strings.HasSuffix(line, ". "+c.Command) {
					r = append(r, c.Command)
				}
			}
		}
		return r
	}
	o1, p1 := c17Run("search", "--database", dbPath, "--platform", "macos", "--no-cross-platform", "--no-color", "--", base)
	o2, p2 := c17Run("search", "--database", dbPath, "--platform", "macos", "--no-cross-platform", "--no-color", "--", variant)
	verifAssert(!p1 && !p2, "C17: every documented sub-command starts and finishes without crashing")
	a, b := rows(o1), rows(o2)
	verifAssert(len(a) == len(b), "C20: command lines differing only in leading, trailing or repeated whitespace print the same results (count)")
	if len(a) == len(b) {
		for k := range a {
			verifAssert(a[k] == b[k], "C20: command lines differing only in leading, trailing or repeated whitespace print the same results")
		}
	}
	verifReach("compared")
	if len(a) > 0 {
		verifReach("nonempty")
	}
}

// C09 through the save-pipeline handler: re-saving under an existing name, with the write cut
func VerifHarness_C09_SavePipelineHandler() {
	home := verifFSHome()
	path := home + "/.config/cmd-finder/personal.yml"
	old := []database.Command{
		{Command: "cat f | wc -l", Description: "counter - 2-step pipeline", Keywords: []string{"pipeline", "workflow"}, Pipeline: true},
		{Command: "old two", Description: "second"},
	}
	verifFSPutDoc(path, "yaml", old)
	_ = c08Flags(savePipelineCmd, map[string]bool{"description": true})
	k := verifInt("k")
	verifAssume(k >= 0)
	verifFSWritePlan(path, verifIntRange("event", 1, 2), k)
	killed := verifCatch(func() {
		savePipelineCmd.Run(savePipelineCmd, []string{"counter", "grep x f | sort | uniq -c | sort -n | head -3"})
	})
	verifFSWriteUnlimit()
	db, lerr := database.LoadDatabase(path)
	verifAssert(lerr == nil, "C09: everything saved earlier remains loadable")
	if lerr != nil {
		return
	}
	has := func(cmd string) bool {
		for _, c := range db.Commands {
			if c.Command == cmd {
				return true
			}
		}
		return false
	}
	verifAssert(has("old two"), "C09: everything saved earlier remains loadable after any such event")
	verifAssert(has("cat f | wc -l") || has("grep x f | sort | uniq -c | sort -n | head -3"), "C09: the notebook holds the complete previous or the complete new content (the pipeline saved under this name is there, old or new)")
	if killed {
		verifReach("interrupted")
	} else {
		verifReach("completed")
	}
}
