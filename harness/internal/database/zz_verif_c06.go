package database

import "strings"

// ---- C06 (engine side): NLP enhancement never drops what the user typed ----

func c06Word(name string, minLen, maxLen int) string {
	n := verifIntRange(name+".len", minLen, maxLen)
	w := verifString(name, n)
	for i := 0; i < len(w); i++ {
		verifAssume(w[i] >= 'a')
		verifAssume(w[i] <= 'z')
	}
	return w
}

// append-only merge: the tokens of the user's text are a prefix of the enhanced term list
func VerifHarness_C06_AppendOnly() {
	db := c01DB(3)
	q := c06Word("w1", 2, 4)
	if verifBool("two") {
		q = q + " " + c06Word("w2", 2, 3)
	}
	terms := normalizeAndTokenize(q)
	orig := append([]string(nil), terms...)
	pq, enh := db.enhanceQueryWithNLP(q, terms)
	verifAssert(pq != nil, "C06: analysis is produced")
	verifAssert(len(enh) >= len(orig), "C06: enhancement never shortens the term list")
	if len(enh) >= len(orig) {
		for k := range orig {
			verifAssert(enh[k] == orig[k], "C06: the user's terms stay first, in order")
		}
	}
	if len(orig) <= 8 {
		verifAssert(len(enh) <= 8, "C06: enhancement stops at eight terms")
	}
	all := pq.GetEnhancedKeywords()
	for k := len(orig); k < len(enh); k++ {
		from := false
		for _, e := range all {
			if e == enh[k] {
				from = true
			}
		}
		verifAssert(from, "C06: every added term comes from the analysis of the query")
		for l := 0; l < k; l++ {
			verifAssert(enh[l] != enh[k], "C06: no added term repeats an earlier one")
		}
	}
	verifReach("checked")
}

// term selection: first four distinct terms survive any cap; output is drawn from the input
func c06Select(nterms int) {
	db := c01DB(5) // index vocabulary: aa bb cc dd ee ff gg
	vocab := []string{"aa", "bb", "cc", "dd", "ee", "ff", "gg", "qq", "xx", "yy", "zz", "ww", "vv"}
	terms := make([]string, nterms)
	for i := range terms {
		if i == 1 || (i == 5 && nterms > 6) {
			terms[i] = vWord("t", 2)         // symbolic: may coincide with anything
			_ = db.uIndex.postings[terms[i]] // case split: which indexed word (if any) it equals
		} else {
			terms[i] = vocab[(i*5+nterms)%len(vocab)]
		}
	}
	capN := verifInt("cap")
	in := append([]string(nil), terms...)
	out := db.selectTopTerms(terms, capN)
	if capN <= 0 || len(in) <= capN {
		verifAssert(len(out) == len(in), "C06: term list within the cap is returned unchanged")
	}
	// the first four distinct input terms are retained
	var firstFour []string
	for _, t := range in {
		if len(firstFour) == 4 {
			break
		}
		dup := false
		for _, f := range firstFour {
			if f == t {
				dup = true
			}
		}
		if !dup {
			firstFour = append(firstFour, t)
		}
	}
	seenIn := func(t string, l []string) bool {
		for _, x := range l {
			if x == t {
				return true
			}
		}
		return false
	}
	// only the leading (at most four) positions are protected by the property
	lead := in
	if len(lead) > 4 {
		lead = lead[:4]
	}
	for _, t := range lead {
		verifAssert(seenIn(t, out), "C06: each of the first four content words is retained")
	}
	for _, t := range out {
		verifAssert(seenIn(t, in), "C06: selected terms are drawn from the query's terms")
	}
	if capN > 0 && len(in) > capN {
		for a := range out {
			for b := 0; b < a; b++ {
				verifAssert(out[a] != out[b], "C06: capped term list has no duplicates")
			}
		}
	}
	verifReach("checked")
}

func VerifHarness_C06_Select6()  { c06Select(6) }
func VerifHarness_C06_Select12() { c06Select(12) }

// candidate superset: everything returned with enhancement off is still returned with it on
var c06Words3 bool

func c06Superset(n int, symbolicDB bool) {
	vConcreteWords, vFreshCounter = !symbolicDB, 0
	db := c03DB(n, verifIntRange("shape", 0, 2))
	db.BuildUniversalIndex()
	db.buildTFIDFSearcher()
	q := c06Word("w1", 2, 4)
	if verifBool("two") {
		q = q + " " + c06Word("w2", 2, 2)
	}
	if c06Words3 && verifBool("three") {
		q = q + " " + c06Word("w3", 2, 3)
	}
	off := db.SearchUniversal(q, SearchOptions{Limit: n + 5, AllPlatforms: true})
	on := db.SearchUniversal(q, SearchOptions{Limit: n + 5, AllPlatforms: true, UseNLP: true})
	for _, a := range off {
		found := false
		for _, b := range on {
			if a.Command == b.Command {
				found = true
			}
		}
		verifAssert(found, "C06: a command returned with enhancement off is still a candidate with it on")
	}
	verifReach("checked")
	if len(off) > 0 {
		verifReach("nonempty")
	}
	_ = strings.Join
}

func VerifHarness_C06_Superset3Q()  { c06Superset(3, false) }
func VerifHarness_C06_Superset3Q3() { c06Words3 = true; c06Superset(3, false); c06Words3 = false }

// superset with action words the user typed ("list", "show") that occur in most commands
func VerifHarness_C06_SupersetAction() {
	mk := func(cmd, desc string) Command {
		c := Command{Command: cmd, Description: desc}
		vFill(&c)
		return c
	}
	db := &Database{Commands: []Command{
		mk("ls", "list files"), mk("ps", "list show processes"), mk("crontab", "list cron jobs"), mk("cat", "show file"), mk("zz", "yy"),
	}}
	db.BuildUniversalIndex()
	db.buildTFIDFSearcher()
	q := c06Word("w1", 4, 4) // the solver may make it "list", "show", "find", ...
	if verifBool("two") {
		q = q + " " + []string{"cron", "files", "zz"}[verifIntRange("second", 0, 2)]
	}
	off := db.SearchUniversal(q, SearchOptions{Limit: 10, AllPlatforms: true})
	on := db.SearchUniversal(q, SearchOptions{Limit: 10, AllPlatforms: true, UseNLP: true})
	for _, a := range off {
		found := false
		for _, b := range on {
			if a.Command == b.Command {
				found = true
			}
		}
		verifAssert(found, "C06: a command returned with enhancement off is still a candidate with it on")
	}
	verifReach("checked")
	if len(off) > 0 {
		verifReach("nonempty")
	}
}

// more matches than any internal re-ranking window: enhancement on still returns them all
func VerifHarness_C06_SupersetMany() {
	var cmds []Command
	for i := 0; i < 56; i++ {
		c := Command{Command: "snap" + string(rune('a'+i%26)) + string(rune('a'+i/26)), Description: "snapshot volume " + string(rune('a'+i%26))}
		vFill(&c)
		cmds = append(cmds, c)
	}
	db := &Database{Commands: cmds}
	db.BuildUniversalIndex()
	db.buildTFIDFSearcher()
	limit := []int{60, 100}[verifIntRange("limit", 0, 1)]
	off := db.SearchUniversal("snapshot", SearchOptions{Limit: limit, AllPlatforms: true})
	on := db.SearchUniversal("snapshot", SearchOptions{Limit: limit, AllPlatforms: true, UseNLP: true})
	verifAssert(len(off) == 56, "C06: every matching command is returned when the limit allows")
	for _, a := range off {
		found := false
		for _, b := range on {
			if a.Command == b.Command {
				found = true
			}
		}
		verifAssert(found, "C06: a command returned with enhancement off is still a candidate with it on")
	}
	verifReach("checked")
	verifReach("nonempty")
}
