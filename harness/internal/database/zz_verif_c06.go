package database

import "strings"

// ---- C06 (engine side): NLP enhancement never drops what the user typed ----

func c06Word(name string, minLen, maxLen int) string {
	n := verifIntRange(name+".len", minLen, maxLen)
	w := verifString(name, n)
	for i := 0; i < len(w); i++ {
		verifAssume(w[i] >= 'a')
		verifAssume(w[i] <= 'z')
	}
	return w
}

// candidate superset: everything returned with enhancement off is still returned with it on
var c06Words3 bool

func c06Superset(n int, symbolicDB bool) {
	vConcreteWords, vFreshCounter = !symbolicDB, 0
	db := c03DB(n, verifIntRange("shape", 0, 2))
	db.BuildUniversalIndex()
	db.buildTFIDFSearcher()
	q := c06Word("w1", 2, 4)
	if verifBool("two") {
		q = q + " " + c06Word("w2", 2, 2)
	}
	if c06Words3 && verifBool("three") {
		q = q + " " + c06Word("w3", 2, 3)
	}
	off := db.SearchUniversal(q, SearchOptions{Limit: n + 5, AllPlatforms: true})
	on := db.SearchUniversal(q, SearchOptions{Limit: n + 5, AllPlatforms: true, UseNLP: true})
	for _, a := range off {
		found := false
		for _, b := range on {
			if a.Command == b.Command {
				found = true
			}
		}
		verifAssert(found, "C06: a command returned with enhancement off is still a candidate with it on")
	}
	verifReach("checked")
	if len(off) > 0 {
		verifReach("nonempty")
	}
	_ = strings.Join
}

func VerifHarness_C06_Superset3Q()  { c06Superset(3, false) }
func VerifHarness_C06_Superset3Q3() { c06Words3 = true; c06Superset(3, false); c06Words3 = false }

// superset with action words the user typed ("list", "show") that occur in most commands
func VerifHarness_C06_SupersetAction() {
	mk := func(cmd, desc string) Command {
		c := Command{Command: cmd, Description: desc}
		vFill(&c)
		return c
	}
	db := &Database{Commands: []Command{
		mk("ls", "list files"), mk("ps", "list show processes"), mk("crontab", "list cron jobs"), mk("cat", "show file"), mk("zz", "yy"),
	}}
	db.BuildUniversalIndex()
	db.buildTFIDFSearcher()
	q := c06Word("w1", 4, 4) // the solver may make it "list", "show", "find", ...
	if verifBool("two") {
		q = q + " " + []string{"cron", "files", "zz"}[verifIntRange("second", 0, 2)]
	}
	off := db.SearchUniversal(q, SearchOptions{Limit: 10, AllPlatforms: true})
	on := db.SearchUniversal(q, SearchOptions{Limit: 10, AllPlatforms: true, UseNLP: true})
	for _, a := range off {
		found := false
		for _, b := range on {
			if a.Command == b.Command {
				found = true
			}
		}
		verifAssert(found, "C06: a command returned with enhancement off is still a candidate with it on")
	}
	verifReach("checked")
	if len(off) > 0 {
		verifReach("nonempty")
	}
}

// more matches than any internal re-ranking window: enhancement on still returns them all
func VerifHarness_C06_SupersetMany() {
	var cmds []Command
	for i := 0; i < 56; i++ {
		c := Command{Command: "snap" + string(rune('a'+i%26)) + string(rune('a'+i/26)), Description: "snapshot volume " + string(rune('a'+i%26))}
		vFill(&c)
		cmds = append(cmds, c)
	}
	db := &Database{Commands: cmds}
	db.BuildUniversalIndex()
	db.buildTFIDFSearcher()
	limit := []int{60, 100}[verifIntRange("limit", 0, 1)]
	off := db.SearchUniversal("snapshot", SearchOptions{Limit: limit, AllPlatforms: true})
	on := db.SearchUniversal("snapshot", SearchOptions{Limit: limit, AllPlatforms: true, UseNLP: true})
	verifAssert(len(off) == 56, "C06: every matching command is returned when the limit allows")
	for _, a := range off {
		found := false
		for _, b := range on {
			if a.Command == b.Command {
				found = true
			}
		}
		verifAssert(found, "C06: a command returned with enhancement off is still a candidate with it on")
	}
	verifReach("checked")
	verifReach("nonempty")
}

// query words with an inner separator character (id_rsa, node-modules, a.b ...): the index and the
// plain path split them the same way; the enhanced path must not lose the match. The separator
// is any printable ASCII character that is neither a letter nor a digit (solver variable).
func VerifHarness_C06_SupersetPunct() {
	mk := func(cmd, desc string) Command {
		c := Command{Command: cmd, Description: desc}
		vFill(&c)
		return c
	}
	sep := verifByte("sep")
	verifAssume(sep > 0x20)
	verifAssume(sep < 0x7f)
	verifAssume(!(sep >= 'a' && sep <= 'z'))
	verifAssume(!(sep >= 'A' && sep <= 'Z'))
	verifAssume(!(sep >= '0' && sep <= '9'))
	inDB := []string{"_", "-", ".", "/"}[verifIntRange("dbsep", 0, 3)]
	db := &Database{Commands: []Command{
		mk("cat id"+inDB+"rsa", "show key"), mk("ls node"+inDB+"modules", "list modules"), mk("zz", "yy"), mk("rsa", "plain"),
	}}
	db.BuildUniversalIndex()
	db.buildTFIDFSearcher()
	q := "id" + string([]byte{sep}) + "rsa"
	if verifBool("lead") {
		q = "show " + q
	}
	off := db.SearchUniversal(q, SearchOptions{Limit: 10, AllPlatforms: true})
	on := db.SearchUniversal(q, SearchOptions{Limit: 10, AllPlatforms: true, UseNLP: true})
	for _, a := range off {
		found := false
		for _, b := range on {
			if a.Command == b.Command {
				found = true
			}
		}
		verifAssert(found, "C06: a command returned with enhancement off is still a candidate with it on")
	}
	verifReach("checked")
	if len(off) > 0 {
		verifReach("nonempty")
	}
}
