package database

// ---- C02: same database, query and options always give the same ranked answer ----
// The runtime's hash-map iteration order is the quantified variable: after
// verifMapOrder(k) every `range` over a map with 2..k entries forks over all
// orders. Each harness runs the function twice in one path (independent
// orders) and compares the outputs.

func c02SameResults(a, b []SearchResult, tag string) {
	verifAssert(len(a) == len(b), "C02: repeated search returns the same number of results ("+tag+")")
	if len(a) != len(b) {
		return
	}
	for k := range a {
		verifAssert(a[k].Command == b[k].Command, "C02: repeated search returns the same commands in the same order ("+tag+")")
		verifAssert(c03SameFloat(a[k].Score, b[k].Score), "C02: repeated search returns the same scores ("+tag+")")
	}
}

func c02Search(n int, nlp bool, orders int) {
	db := c01DB(n) // entries 0 and 1 are identical: their scores tie
	q := vWord("q", 2)
	o := SearchOptions{Limit: verifIntRange("limit", 1, 2), AllPlatforms: true, UseNLP: nlp}
	verifMapOrder(orders)
	a := db.SearchUniversal(q, o)
	b := db.SearchUniversal(q, o)
	verifMapOrder(1)
	c02SameResults(a, b, "SearchUniversal")
	verifReach("compared")
	if len(a) > 0 {
		verifReach("nonempty")
	}
}

func VerifHarness_C02_Ties3()    { c02Search(3, false, 3) }
func VerifHarness_C02_Ties3NLP() { c02Search(3, true, 3) }
func VerifHarness_C02_Ties5()    { c02Search(5, false, 4) }

// reloading the same content gives the same answer (index construction ranges over maps)
func VerifHarness_C02_Reload() {
	q := vWord("q", 2)
	o := SearchOptions{Limit: 2, AllPlatforms: true, UseNLP: true}
	verifMapOrder(3)
	d1 := c01DB(3)
	d2 := c01DB(3)
	a := d1.SearchUniversal(q, o)
	b := d2.SearchUniversal(q, o)
	verifMapOrder(1)
	verifAssert(len(a) == len(b), "C02: independently loaded copies return the same number of results")
	if len(a) == len(b) {
		for k := range a {
			ia, ib := c13Index(d1, a[k].Command), c13Index(d2, b[k].Command)
			verifAssert(ia == ib, "C02: independently loaded copies return the same commands in the same order")
			verifAssert(c03SameFloat(a[k].Score, b[k].Score), "C02: independently loaded copies return the same scores")
		}
	}
	verifReach("compared")
}

// 'did you mean' suggestions
func VerifHarness_C02_Suggestions() {
	db := &Database{Commands: []Command{
		{Command: "abc", Description: "abd"},
		{Command: "abe", Description: "abd"},
	}}
	q := "ab"
	verifMapOrder(4)
	a := db.GetSuggestions(q, verifIntRange("max", 1, 3))
	b := db.GetSuggestions(q, 3)
	verifMapOrder(1)
	n := len(a)
	if len(b) < n {
		n = len(b)
	}
	for k := 0; k < n; k++ {
		verifAssert(a[k] == b[k], "C02: suggestions are reproducible")
	}
	verifReach("compared")
}

// three distinct query words that all hit one command: the per-command score is a sum of
// three terms, which must not depend on the order in which any map hands them out
func VerifHarness_C02_ThreeTerms() {
	mk := func(cmd, desc string, kws ...string) Command {
		c := Command{Command: cmd, Description: desc, Keywords: kws}
		vFill(&c)
		return c
	}
	db := &Database{Commands: []Command{
		mk("aa bb cc", "dd aa aa ee", "cc", "ff"), mk("bb", "aa cc cc cc gg"), mk("ii", "jj"),
	}}
	db.BuildUniversalIndex()
	db.buildTFIDFSearcher()
	q := []string{"aa bb cc", "aa bb cc aa", "bb cc dd"}[verifIntRange("query", 0, 2)]
	o := SearchOptions{Limit: 3, AllPlatforms: true}
	// the first run walks every map in one fixed order, the second in every order: an answer
	// that depends on some order differs from the reference for at least one of them
	a := db.SearchUniversal(q, o)
	verifMapOrder(3)
	b := db.SearchUniversal(q, o)
	verifMapOrder(1)
	c02SameResults(a, b, "SearchUniversal, three terms")
	verifReach("compared")
	if len(a) > 0 {
		verifReach("nonempty")
	}
}

// a database handed over as a plain command list (UpdateDatabase, LoadDatabaseWithMonitoring):
// the cached lower-case fields are empty; asking twice must still give the same answer
func VerifHarness_C02_RepeatUnfilled() {
	cmds := []Command{
		{Command: "zip -r site.zip public", Description: "Compress a directory into one archive", Keywords: []string{"zip", "recursive"}},
		{Command: "tar czf a.tgz dir", Description: "Create an archive of a directory", Keywords: []string{"compress"}},
		{Command: "du -sh dir", Description: "Show size of a directory"},
	}
	db := &Database{}
	cdb := NewCachedDatabase(db)
	cdb.EnableCache(false)
	cdb.UpdateDatabase(cmds)
	q := []string{"compress directory", "create archive", "show size"}[verifIntRange("query", 0, 2)]
	o := SearchOptions{Limit: verifIntRange("limit", 1, 3), AllPlatforms: true, UseNLP: true}
	a := cdb.SearchUniversal(q, o)
	b := cdb.SearchUniversal(q, o)
	c02SameResults(a, b, "repeated SearchUniversal, plain command list")
	verifReach("compared")
	if len(a) > 0 {
		verifReach("nonempty")
	}
}

// a boost table whose keys differ only in letter case (and carry different factors)
func VerifHarness_C02_BoostKeyCase() {
	db := c01DB(3)
	o := SearchOptions{Limit: 3, AllPlatforms: true, UseNLP: verifBool("nlp"),
		ContextBoosts: map[string]float64{"aa": 2.0, "AA": 1.3, "Aa": 3.5}}
	a := db.SearchUniversal("aa bb", o)
	verifMapOrder(3)
	b := db.SearchUniversal("aa bb", o)
	verifMapOrder(1)
	c02SameResults(a, b, "SearchUniversal, boost keys differing in case")
	verifReach("compared")
	if len(a) > 0 {
		verifReach("nonempty")
	}
}

// the answer to a query does not depend on which queries were answered before it
func VerifHarness_C02_Interleaved() {
	db := c01DB(5)
	qs := []string{"aa", "cc dd", "bb ee", "ff"}
	q := qs[verifIntRange("query", 0, 3)]
	other := qs[verifIntRange("other", 0, 3)]
	o := SearchOptions{Limit: 3, AllPlatforms: true, UseNLP: verifBool("nlp"), PipelineOnly: verifBool("pipelineOnly")}
	a := db.SearchUniversal(q, o)
	oo := o
	oo.PipelineOnly = verifBool("otherPipelineOnly")
	_ = db.SearchUniversal(other, oo)
	b := db.SearchUniversal(q, o)
	c02SameResults(a, b, "SearchUniversal after another query")
	verifReach("compared")
	if len(a) > 0 {
		verifReach("nonempty")
	}
}

// more distinct terms than the term cap, several of them equally rare: which ones survive the
// cut must not depend on any map order
func VerifHarness_C02_TermCapTies() {
	mk := func(cmd, desc string) Command {
		c := Command{Command: cmd, Description: desc}
		vFill(&c)
		return c
	}
	db := &Database{Commands: []Command{
		mk("c1", "aa"), mk("c2", "bb"), mk("c3", "cc"), mk("c4", "dd"), mk("c5", "ee"), mk("c6", "ff"), mk("c7", "gg"), mk("c8", "hh"),
	}}
	db.BuildUniversalIndex()
	q := "aa bb cc dd ee ff gg hh"
	o := SearchOptions{Limit: 8, AllPlatforms: true, TopTermsCap: verifIntRange("termsCap", 5, 7)}
	a := db.SearchUniversal(q, o)
	verifMapOrder(3)
	verifMapOrderBig(true)
	b := db.SearchUniversal(q, o)
	verifMapOrderBig(false)
	verifMapOrder(1)
	c02SameResults(a, b, "SearchUniversal, term cap with equally rare terms")
	verifReach("compared")
	if len(a) > 0 {
		verifReach("nonempty")
	}
}

// filter options differing between consecutive searches on one database: each answer is that
// of a freshly built database
func VerifHarness_C02_InterleavedFilters() {
	fresh := c04DB(false)
	warm := c04DB(false)
	pick := func(tag string) SearchOptions {
		o := SearchOptions{Limit: 9, UseNLP: verifBool(tag + ".nlp"), NoCrossPlatform: verifBool(tag + ".noCross"), UseFuzzy: verifBool(tag + ".fuzzy")}
		switch verifIntRange(tag+".platforms", 0, 2) {
		case 1:
			o.Platforms = []string{"windows"}
		case 2:
			o.Platforms = []string{"macos"}
		}
		return o
	}
	o1, o2 := pick("first"), pick("second")
	q := []string{"aa", "git", "zq"}[verifIntRange("query", 0, 2)]
	_ = warm.SearchUniversal(q, o1)
	a := fresh.SearchUniversal(q, o2)
	b := warm.SearchUniversal(q, o2)
	verifAssert(len(a) == len(b), "C02: the same request gives the same answer whatever the database served before (count)")
	if len(a) == len(b) {
		for k := range a {
			verifAssert(a[k].Command.Command == b[k].Command.Command && c03SameFloat(a[k].Score, b[k].Score), "C02: the same request gives the same answer whatever the database served before")
		}
	}
	verifReach("compared")
	if len(a) > 0 {
		verifReach("nonempty")
	}
}
