package database

// ---- C11 (engine): a search on a loaded database writes nothing that existed before the call ----

func c11Search(nlp bool) {
	db := c04DB(false) // index and re-ranker built, as every loader leaves them
	q := vWord("q", 2)
	o := SearchOptions{Limit: verifIntRange("limit", 1, 3), UseNLP: nlp, UseFuzzy: verifBool("fuzzy"), AllPlatforms: verifBool("allPlatforms"), PipelineOnly: verifBool("pipelineOnly")}
	if verifBool("boosts") {
		o.ContextBoosts = map[string]float64{"aa": 2}
	}
	if nlp && verifBool("actionQuery") {
		q = []string{"find aa", "list bb"}[verifIntRange("aq", 0, 1)] // queries with an action word
	}
	// the options' boost table belongs to the caller and is shared between searches
	verifFreeze("SearchUniversal", db, o.ContextBoosts)
	_ = db.SearchUniversal(q, o)
	_ = db.GetSuggestions(q, 3)
	verifUnguard()
	verifReach("searched")
}

func VerifHarness_C11_ReadOnlySearch()    { c11Search(false) }
func VerifHarness_C11_ReadOnlySearchNLP() { c11Search(true) }

// through the cache and the monitor: only lock-guarded / atomic state may change
func VerifHarness_C11_CachedSearch() {
	db := c04DB(false)
	mdb := NewMonitoredDatabase(db)
	q := []string{"aa", "bb"}[verifIntRange("q", 0, 1)]
	o := SearchOptions{Limit: 3}
	if verifBool("warm") {
		_ = mdb.SearchWithOptionsAndMonitoring(q, o)
	}
	verifFreeze("cached search", db)
	lru := mdb.cacheManager.GetSearchCache()
	_ = lru
	switch verifIntRange("op", 0, 3) {
	case 0:
		_ = mdb.SearchWithOptionsAndMonitoring(q, o)
	case 1:
		mdb.InvalidateCache()
	case 2:
		_ = mdb.CleanupExpiredCache()
	case 3:
		_ = mdb.GetCacheStats()
	}
	verifUnguard()
	verifReach("searched")
}
