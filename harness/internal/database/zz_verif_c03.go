package database

import (
	"math"
	"strings"
)

// ---- C03: the inverted index answers like an exhaustive scan ----

// c03Tokens is the reference tokeniser, valid for the harness alphabet: fields
// are lower-case ASCII words separated by single spaces (no stop words).
func c03Tokens(s string) []string {
	if s == "" {
		return nil
	}
	return strings.Split(s, " ")
}

func c03Count(toks []string, t string) int {
	n := 0
	for _, x := range toks {
		if x == t {
			n++
		}
	}
	return n
}

type c03Doc struct {
	cmd, desc, keys, tags []string
}

func c03Docs(db *Database) []c03Doc {
	docs := make([]c03Doc, len(db.Commands))
	for i := range db.Commands {
		c := &db.Commands[i]
		docs[i] = c03Doc{
			cmd:  c03Tokens(c.Command),
			desc: c03Tokens(c.Description),
			keys: c03Tokens(strings.Join(c.Keywords, " ")),
			tags: c03Tokens(strings.Join(c.Tags, " ")),
		}
	}
	return docs
}

func c03Field(p bm25fParams, tf, dl int, avg, w, b float64) float64 {
	if tf <= 0 {
		return 0
	}
	if avg <= 0 {
		avg = 1
	}
	norm := (1 - b) + b*(float64(dl)/avg)
	tfw := w * float64(tf)
	return (tfw * (p.k1 + 1)) / (tfw + p.k1*norm)
}

// c03Reference recomputes candidate set and scores directly from the texts.
func c03Reference(db *Database, terms []string, boost func(string) float64) map[int]float64 {
	p := db.uIndex.params // read the parameters in force, so re-tuning is followed
	docs := c03Docs(db)
	n := len(docs)
	var sc, sd, sk, st int
	for _, d := range docs {
		sc += len(d.cmd)
		sd += len(d.desc)
		sk += len(d.keys)
		st += len(d.tags)
	}
	fn := float64(n)
	ac, ad, ak, at := float64(sc)/fn, float64(sd)/fn, float64(sk)/fn, float64(st)/fn
	out := map[int]float64{}
	for _, t := range terms {
		df := 0
		for _, d := range docs {
			if c03Count(d.cmd, t)+c03Count(d.desc, t)+c03Count(d.keys, t)+c03Count(d.tags, t) > 0 {
				df++
			}
		}
		if df == 0 {
			continue
		}
		idf := math.Log((float64(n)-float64(df)+0.5)/(float64(df)+0.5) + 1)
		if idf < p.minIDF {
			continue
		}
		b := boost(t)
		for i, d := range docs {
			tc, td, tk, tt := c03Count(d.cmd, t), c03Count(d.desc, t), c03Count(d.keys, t), c03Count(d.tags, t)
			if tc+td+tk+tt == 0 {
				continue
			}
			var s float64
			if tc > 0 {
				s += c03Field(p, tc, len(d.cmd), ac, p.w.cmd, p.b.cmd)
			}
			if td > 0 {
				s += c03Field(p, td, len(d.desc), ad, p.w.desc, p.b.desc)
			}
			if tk > 0 {
				s += c03Field(p, tk, len(d.keys), ak, p.w.keys, p.b.keys)
			}
			if tt > 0 {
				s += c03Field(p, tt, len(d.tags), at, p.w.tags, p.b.tags)
			}
			out[i] = out[i] + (idf*b)*s
		}
	}
	return out
}

func c03SameFloat(a, b float64) bool {
	return a == b || (a != a && b != b)
}

// c03Compare asserts that res is exactly the reference candidate set with the reference scores.
func c03Compare(db *Database, res []SearchResult, ref map[int]float64, tag string) {
	verifAssert(len(res) == len(ref), "C03: result set has exactly the commands containing a query word ("+tag+")")
	seen := map[int]bool{}
	for _, r := range res {
		idx := -1
		for i := range db.Commands {
			if r.Command == &db.Commands[i] {
				idx = i
			}
		}
		verifAssert(idx >= 0, "C03: every result is an entry of the searched database ("+tag+")")
		if idx < 0 {
			continue
		}
		verifAssert(!seen[idx], "C03: no entry is returned twice ("+tag+")")
		seen[idx] = true
		want, ok := ref[idx]
		verifAssert(ok, "C03: a returned command contains a query word ("+tag+")")
		if ok {
			verifAssert(c03SameFloat(r.Score, want), "C03: score equals the BM25F sum recomputed from the texts ("+tag+")")
		}
	}
}

// c03DB builds n commands from a fixed vocabulary with deliberate collisions
// (repeated words inside a field, across fields and across documents) plus a
// few symbolic 2-letter words ("?") that may coincide with any of them.
func c03DB(n int, shape int) *Database {
	var all []Command
	switch shape {
	case 0:
		all = []Command{
			vCmd("aa bb", "cc aa", "dd,ee", "ff"),
			vCmd("?", "cc ?", "aa", ""),
			vCmd("gg", "aa aa ?", "", "cc,hh"),
		}
	case 1:
		all = []Command{
			vCmd("?", "", "aa bb", ""),
			vCmd("aa", "bb ?", "", "aa"),
			vCmd("bb cc", "cc", "cc,?", "dd"),
		}
	default:
		all = []Command{
			vCmd("aa", "?", "", ""),
			vCmd("aa", "aa", "aa", "aa"),
			vCmd("?", "bb", "bb", ""),
		}
	}
	return &Database{Commands: all[:n]}
}

func c03Scan(n, shape, qwords int, withBoost bool) {
	vConcreteWords = false
	db := c03DB(n, shape)
	db.BuildUniversalIndex()
	terms := make([]string, qwords)
	for i := range terms {
		terms[i] = vWord("q", 2)
	}
	q := strings.Join(terms, " ")
	opts := SearchOptions{Limit: n + 5, AllPlatforms: true}
	boost := func(string) float64 { return 1.0 }
	if withBoost {
		b := verifFloat64("boost")
		verifAssume(b > 0)
		verifAssume(b < 1e6)
		opts.ContextBoosts = map[string]float64{terms[0]: b}
		boost = func(t string) float64 {
			if t == terms[0] {
				return b
			}
			return 1.0
		}
	}
	res := db.SearchUniversal(q, opts)
	ref := c03Reference(db, terms, boost)
	c03Compare(db, res, ref, "scan")
	verifReach("compared")
	if len(res) > 0 {
		verifReach("nonempty")
	}
}

func VerifHarness_C03_Scan1()      { c03Scan(1, verifIntRange("shape", 0, 2), 1, false) }
func VerifHarness_C03_Scan2()      { c03Scan(2, verifIntRange("shape", 0, 2), 1, false) }
func VerifHarness_C03_Scan2q2()    { c03Scan(2, verifIntRange("shape", 0, 2), 2, false) }
func VerifHarness_C03_Scan2Boost() { c03Scan(2, verifIntRange("shape", 0, 2), 1, true) }
func VerifHarness_C03_Scan3()      { c03Scan(3, 0, 1, false) }

// ---- staleness: the index and the re-ranker never lag behind the commands ----

// c03Load mimics what every loader establishes.
func c03Load(cmds []Command) *Database {
	db := &Database{Commands: cmds}
	db.BuildUniversalIndex()
	db.buildTFIDFSearcher()
	return db
}

// c03SameAnswer: got (from the database under test) equals want (from a freshly
// built database over the same commands), position by position.
func c03SameAnswer(gotDB *Database, got []SearchResult, wantDB *Database, want []SearchResult, tag string) {
	verifAssert(len(got) == len(want), "C03: stale state changes the number of results ("+tag+")")
	if len(got) != len(want) {
		return
	}
	for k := range got {
		gi, wi := -1, -1
		for i := range gotDB.Commands {
			if got[k].Command == &gotDB.Commands[i] {
				gi = i
			}
		}
		for i := range wantDB.Commands {
			if want[k].Command == &wantDB.Commands[i] {
				wi = i
			}
		}
		verifAssert(gi >= 0, "C03: result is an entry of the current command list ("+tag+")")
		verifAssert(gi == wi, "C03: same command at every rank as a freshly built database ("+tag+")")
		verifAssert(c03SameFloat(got[k].Score, want[k].Score), "C03: same score as a freshly built database ("+tag+")")
	}
}

func c03CopyCmds(src []Command) []Command {
	out := make([]Command, len(src))
	copy(out, src)
	return out
}

func c03Stale(mode int, nlp bool, concrete bool) {
	vConcreteWords, vFreshCounter = concrete, 0
	a := c03DB(2, 0).Commands
	b := c03DB(2, 1).Commands
	q := vWord("q", 2)
	opts := SearchOptions{Limit: 9, AllPlatforms: true, UseNLP: nlp}
	db := c03Load(c03CopyCmds(a))
	_ = db.SearchUniversal(q, opts) // a search precedes the change
	var current []Command
	switch mode {
	case 0: // replacement through the caching wrapper
		cdb := NewCachedDatabase(db)
		current = c03CopyCmds(b)
		cdb.UpdateDatabase(current)
	case 1: // growth of the command list at run time
		db.Commands = append(db.Commands, b[0])
		current = db.Commands
	case 2: // replacement by a list of a different size
		db.Commands = c03CopyCmds(b[:1])
		current = db.Commands
	}
	got := db.SearchUniversal(q, opts)
	fresh := c03Load(c03CopyCmds(current))
	want := fresh.SearchUniversal(q, opts)
	c03SameAnswer(db, got, fresh, want, "history")
	verifReach("compared")
	if len(want) > 0 {
		verifReach("nonempty")
	}
}

// quick: concrete databases, symbolic query; thorough: symbolic words in the databases too
func VerifHarness_C03_StaleUpdateQ()    { c03Stale(0, false, true) }
func VerifHarness_C03_StaleGrowQ()      { c03Stale(1, false, true) }
func VerifHarness_C03_StaleShrinkQ()    { c03Stale(2, false, true) }
func VerifHarness_C03_StaleUpdateNLPQ() { c03Stale(0, true, true) }
func VerifHarness_C03_StaleGrowNLPQ()   { c03Stale(1, true, true) }
func VerifHarness_C03_StaleUpdate()     { c03Stale(0, false, false) }
func VerifHarness_C03_StaleGrow()       { c03Stale(1, false, false) }
func VerifHarness_C03_StaleShrink()     { c03Stale(2, false, false) }
func VerifHarness_C03_StaleUpdateNLP()  { c03Stale(0, true, false) }
func VerifHarness_C03_StaleGrowNLP()    { c03Stale(1, true, false) }

// a word repeated hundreds of times in one field (term frequencies beyond 8 bits)
func VerifHarness_C03_ScanRepeats() {
	n := []int{255, 256, 300}[verifIntRange("repeats", 0, 2)]
	desc := ""
	for i := 0; i < n; i++ {
		if i > 0 {
			desc += " "
		}
		desc += "aa"
	}
	mk := func(cmd, d string) Command {
		c := Command{Command: cmd, Description: d}
		vFill(&c)
		return c
	}
	db := &Database{Commands: []Command{mk("bb", desc), mk("aa cc", "bb")}}
	db.BuildUniversalIndex()
	q := []string{"aa", "bb"}[verifIntRange("query", 0, 1)]
	res := db.SearchUniversal(q, SearchOptions{Limit: 5, AllPlatforms: true})
	c03Compare(db, res, c03Reference(db, []string{q}, func(string) float64 { return 1.0 }), "scan, repeated word")
	verifReach("compared")
	if len(res) > 0 {
		verifReach("nonempty")
	}
}

// words with non-ASCII letters / digits: the index and the query side must cut them the same
// way, so a command is found by each of its own (tokenised) words
func VerifHarness_C03_ScanUnicode() {
	mk := func(cmd, d string) Command {
		c := Command{Command: cmd, Description: d}
		vFill(&c)
		return c
	}
	words := []string{"résumé", "naïve", "m²", "über", "日本"}
	w := words[verifIntRange("word", 0, len(words)-1)]
	db := &Database{Commands: []Command{mk("aa", w+" builder"), mk("bb", "plain text"), mk(w, "cc")}}
	db.BuildUniversalIndex()
	res := db.SearchUniversal(w, SearchOptions{Limit: 5, AllPlatforms: true})
	for _, want := range []int{0, 2} {
		if len(normalizeAndTokenize(w)) == 0 {
			continue // the word has no indexable part at all
		}
		found := false
		for _, r := range res {
			if r.Command == &db.Commands[want] {
				found = true
			}
		}
		verifAssert(found, "C03: a command containing the query word is returned (index and query tokenise alike)")
	}
	verifReach("compared")
	if len(res) > 0 {
		verifReach("nonempty")
	}
}

// queries of exactly ten content words (the documented limit of "all of them"), with repeats
func VerifHarness_C03_ScanTenWords() {
	vConcreteWords = true
	db := c03DB(3, 0)
	db.BuildUniversalIndex()
	vocab := []string{"aa", "bb", "cc", "dd", "ee", "ff", "gg", "hh", "ii", "jj", "kk"}
	n := verifIntRange("words", 9, 11)
	rep := verifIntRange("repeatOf", 0, 2)
	terms := make([]string, n)
	for i := range terms {
		terms[i] = vocab[i]
	}
	terms[n-1] = terms[rep] // one word occurs twice
	res := db.SearchUniversal(strings.Join(terms, " "), SearchOptions{Limit: 8, AllPlatforms: true})
	if n <= 10 {
		c03Compare(db, res, c03Reference(db, terms, func(string) float64 { return 1.0 }), "scan, ten-word query")
	}
	verifReach("compared")
	if len(res) > 0 {
		verifReach("nonempty")
	}
}

// per-term boosts that are not positive numbers mean "no boost"
func VerifHarness_C03_ScanOddBoost() {
	vConcreteWords = true
	db := c03DB(2, verifIntRange("shape", 0, 2))
	db.BuildUniversalIndex()
	q := []string{"aa", "bb", "cc"}[verifIntRange("query", 0, 2)]
	b := []float64{-2, 0, math.NaN(), 1.5, math.Inf(-1)}[verifIntRange("boost", 0, 4)]
	res := db.SearchUniversal(q, SearchOptions{Limit: 8, AllPlatforms: true, ContextBoosts: map[string]float64{q: b}})
	eff := 1.0
	if b > 0 {
		eff = b
	}
	c03Compare(db, res, c03Reference(db, []string{q}, func(string) float64 { return eff }), "scan, odd boost")
	verifReach("compared")
	if len(res) > 0 {
		verifReach("nonempty")
	}
}

// words separated by punctuation only (no blank): they stay separate words on both sides
func VerifHarness_C03_ScanPunct() {
	mk := func(cmd, d string) Command {
		c := Command{Command: cmd, Description: d}
		vFill(&c)
		return c
	}
	db := &Database{Commands: []Command{mk("aa", "copy,paste /etc/passwd user@host"), mk("bb", "plain text"), mk("paste", "cc")}}
	db.BuildUniversalIndex()
	w := []string{"paste", "passwd", "host", "copy", "etc"}[verifIntRange("word", 0, 4)]
	res := db.SearchUniversal(w, SearchOptions{Limit: 5, AllPlatforms: true})
	found := false
	for _, r := range res {
		if r.Command == &db.Commands[0] {
			found = true
		}
	}
	verifAssert(found, "C03: a command containing the query word is returned (words separated by punctuation are words)")
	c03Compare(db, res, c03ReferenceTok(db, []string{w}), "scan, punctuation-separated words")
	verifReach("compared")
	verifReach("nonempty")
}

// c03ReferenceTok: the reference scan with fields cut at every character that is not an ASCII
// letter, digit, '-', '.', or '_' (the documented tokenisation) instead of at single blanks.
func c03ReferenceTok(db *Database, terms []string) map[int]float64 {
	saved := make([]Command, len(db.Commands))
	copy(saved, db.Commands)
	clean := func(s string) string {
		out := []byte(strings.ToLower(s))
		for i, b := range out {
			if !(b >= 'a' && b <= 'z' || b >= '0' && b <= '9' || b == '-' || b == '.' || b == '_') {
				out[i] = ' '
			}
		}
		return strings.Join(strings.Fields(string(out)), " ")
	}
	tmp := &Database{Commands: make([]Command, len(db.Commands)), uIndex: db.uIndex}
	for i, c := range db.Commands {
		tmp.Commands[i] = Command{Command: clean(c.Command), Description: clean(c.Description)}
	}
	return c03Reference(tmp, terms, func(string) float64 { return 1.0 })
}

// a word that occurs in (nearly) every command is still a content word: all of them are returned
func VerifHarness_C03_ScanUbiquitous() {
	mk := func(cmd, d string) Command {
		c := Command{Command: cmd, Description: d}
		vFill(&c)
		return c
	}
	n := verifIntRange("commands", 4, 16)
	var cmds []Command
	for i := 0; i < n; i++ {
		cmds = append(cmds, mk("docker c"+string(rune('a'+i)), "container "+string(rune('a'+i))))
	}
	if verifBool("oneWithout") {
		cmds[n-1] = mk("zz", "yy")
	}
	db := &Database{Commands: cmds}
	db.BuildUniversalIndex()
	res := db.SearchUniversal("docker", SearchOptions{Limit: 50, AllPlatforms: true})
	want := 0
	for i := range db.Commands {
		if strings.Contains(db.Commands[i].Command, "docker") {
			want++
		}
	}
	verifAssert(len(res) == want, "C03: the commands returned are exactly those containing a content word of the query (a ubiquitous word included)")
	verifReach("compared")
	verifReach("nonempty")
}
