package database

// C06 harnesses that call unexported helpers of the engine directly (kept apart: when a change
// re-shapes a helper this file is set aside and the harnesses on the public entry points still run)

// append-only merge: the tokens of the user's text are a prefix of the enhanced term list
func VerifHarness_C06_AppendOnly() {
	db := c01DB(3)
	q := c06Word("w1", 2, 4)
	if verifBool("two") {
		q = q + " " + c06Word("w2", 2, 3)
	}
	terms := normalizeAndTokenize(q)
	orig := append([]string(nil), terms...)
	pq, enh := db.enhanceQueryWithNLP(q, terms)
	verifAssert(pq != nil, "C06: analysis is produced")
	verifAssert(len(enh) >= len(orig), "C06: enhancement never shortens the term list")
	if len(enh) >= len(orig) {
		for k := range orig {
			verifAssert(enh[k] == orig[k], "C06: the user's terms stay first, in order")
		}
	}
	if len(orig) <= 8 {
		verifAssert(len(enh) <= 8, "C06: enhancement stops at eight terms")
	}
	all := pq.GetEnhancedKeywords()
	for k := len(orig); k < len(enh); k++ {
		from := false
		for _, e := range all {
			if e == enh[k] {
				from = true
			}
		}
		verifAssert(from, "C06: every added term comes from the analysis of the query")
		for l := 0; l < k; l++ {
			verifAssert(enh[l] != enh[k], "C06: no added term repeats an earlier one")
		}
	}
	verifReach("checked")
}

// term selection: first four distinct terms survive any cap; output is drawn from the input
func c06Select(nterms int) {
	db := c01DB(5) // index vocabulary: aa bb cc dd ee ff gg
	vocab := []string{"aa", "bb", "cc", "dd", "ee", "ff", "gg", "qq", "xx", "yy", "zz", "ww", "vv"}
	terms := make([]string, nterms)
	for i := range terms {
		if i == 1 || (i == 5 && nterms > 6) {
			terms[i] = vWord("t", 2)         // symbolic: may coincide with anything
			_ = db.uIndex.postings[terms[i]] // case split: which indexed word (if any) it equals
		} else {
			terms[i] = vocab[(i*5+nterms)%len(vocab)]
		}
	}
	capN := verifInt("cap")
	in := append([]string(nil), terms...)
	out := db.selectTopTerms(terms, capN)
	if capN <= 0 || len(in) <= capN {
		verifAssert(len(out) == len(in), "C06: term list within the cap is returned unchanged")
	}
	// the first four distinct input terms are retained
	var firstFour []string
	for _, t := range in {
		if len(firstFour) == 4 {
			break
		}
		dup := false
		for _, f := range firstFour {
			if f == t {
				dup = true
			}
		}
		if !dup {
			firstFour = append(firstFour, t)
		}
	}
	seenIn := func(t string, l []string) bool {
		for _, x := range l {
			if x == t {
				return true
			}
		}
		return false
	}
	// only the leading (at most four) positions are protected by the property
	lead := in
	if len(lead) > 4 {
		lead = lead[:4]
	}
	for _, t := range lead {
		verifAssert(seenIn(t, out), "C06: each of the first four content words is retained")
	}
	for _, t := range out {
		verifAssert(seenIn(t, in), "C06: selected terms are drawn from the query's terms")
	}
	if capN > 0 && len(in) > capN {
		for a := range out {
			for b := 0; b < a; b++ {
				verifAssert(out[a] != out[b], "C06: capped term list has no duplicates")
			}
		}
	}
	verifReach("checked")
}

func VerifHarness_C06_Select6()  { c06Select(6) }
func VerifHarness_C06_Select12() { c06Select(12) }

