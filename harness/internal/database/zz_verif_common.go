package database

import "strings"

// vWord returns an n-letter word of symbolic lower-case ASCII letters that is
// not a stop word (so tokenisation keeps it as exactly one token).
func vWord(name string, n int) string {
	w := verifString(name, n)
	for i := 0; i < len(w); i++ {
		verifAssume(w[i] >= 'a')
		verifAssume(w[i] <= 'z')
	}
	verifAssume(!stopWords[w])
	return w
}

// vFill sets the cached lower-case fields exactly as LoadDatabase does.
func vFill(c *Command) {
	c.CommandLower = strings.ToLower(c.Command)
	c.DescriptionLower = strings.ToLower(c.Description)
	c.KeywordsLower = make([]string, len(c.Keywords))
	for j, kw := range c.Keywords {
		c.KeywordsLower[j] = strings.ToLower(kw)
	}
	c.TagsLower = make([]string, len(c.Tags))
	for j, t := range c.Tags {
		c.TagsLower[j] = strings.ToLower(t)
	}
}

// vText instantiates a template: every "?" token becomes a fresh symbolic
// 2-letter word, everything else is kept (lower-case ASCII words, single spaces).
var (
	vConcreteWords bool // when set, "?" becomes a fixed fresh word instead of a symbolic one
	vFreshCounter  int
)

func vFresh() string {
	vFreshCounter++
	return string([]byte{'z', byte('a' + vFreshCounter%26)})
}

func vText(name, tmpl string) string {
	if tmpl == "" {
		return ""
	}
	parts := strings.Split(tmpl, " ")
	for i, p := range parts {
		if p == "?" {
			if vConcreteWords {
				parts[i] = vFresh()
			} else {
				parts[i] = vWord(name, 2)
			}
		}
	}
	return strings.Join(parts, " ")
}

// vCmd builds a command from templates (keywords / tags: comma-separated lists of templates).
func vCmd(cmd, desc, kws, tags string) Command {
	c := Command{Command: vText("cmd", cmd), Description: vText("desc", desc)}
	if kws != "" {
		for _, k := range strings.Split(kws, ",") {
			c.Keywords = append(c.Keywords, vText("kw", k))
		}
	}
	if tags != "" {
		for _, k := range strings.Split(tags, ",") {
			c.Tags = append(c.Tags, vText("tag", k))
		}
	}
	vFill(&c)
	return c
}

// vSmallDB builds n commands whose fields are made of 2-letter symbolic words:
// command = 1 word, description = 2 words, keywords = 1 word, no tags, no platform.
func vSmallDB(n int) *Database {
	cmds := make([]Command, n)
	for i := range cmds {
		cmds[i] = Command{
			Command:     vWord("cmd", 2),
			Description: vWord("d1", 2) + " " + vWord("d2", 2),
			Keywords:    []string{vWord("kw", 2)},
		}
		vFill(&cmds[i])
	}
	db := &Database{Commands: cmds}
	db.BuildUniversalIndex()
	return db
}

func VerifHarness_Smoke1() {
	db := vSmallDB(1)
	q := vWord("q", 2)
	res := db.SearchUniversal(q, SearchOptions{Limit: 10, AllPlatforms: true})
	verifAssert(len(res) <= 1, "smoke: at most one result")
	for _, r := range res {
		verifAssert(r.Score >= 0, "smoke: score non-negative")
	}
	verifReach("end")
}
