package database

import "strings"

// vWord returns an n-letter word of symbolic lower-case ASCII letters that is
// not a stop word (so tokenisation keeps it as exactly one token).
func vWord(name string, n int) string {
	w := verifString(name, n)
	for i := 0; i < len(w); i++ {
		verifAssume(w[i] >= 'a')
		verifAssume(w[i] <= 'z')
	}
	verifAssume(!stopWords[w])
	return w
}

// vFill sets the cached lower-case fields exactly as LoadDatabase does.
func vFill(c *Command) {
	c.CommandLower = strings.ToLower(c.Command)
	c.DescriptionLower = strings.ToLower(c.Description)
	c.KeywordsLower = make([]string, len(c.Keywords))
	for j, kw := range c.Keywords {
		c.KeywordsLower[j] = strings.ToLower(kw)
	}
	c.TagsLower = make([]string, len(c.Tags))
	for j, t := range c.Tags {
		c.TagsLower[j] = strings.ToLower(t)
	}
}

// vSmallDB builds n commands whose fields are made of 2-letter symbolic words:
// command = 1 word, description = 2 words, keywords = 1 word, no tags, no platform.
func vSmallDB(n int) *Database {
	cmds := make([]Command, n)
	for i := range cmds {
		cmds[i] = Command{
			Command:     vWord("cmd", 2),
			Description: vWord("d1", 2) + " " + vWord("d2", 2),
			Keywords:    []string{vWord("kw", 2)},
		}
		vFill(&cmds[i])
	}
	db := &Database{Commands: cmds}
	db.BuildUniversalIndex()
	return db
}

func VerifHarness_Smoke1() {
	db := vSmallDB(1)
	q := vWord("q", 2)
	res := db.SearchUniversal(q, SearchOptions{Limit: 10, AllPlatforms: true})
	verifAssert(len(res) <= 1, "smoke: at most one result")
	for _, r := range res {
		verifAssert(r.Score >= 0, "smoke: score non-negative")
	}
	verifReach("end")
}
