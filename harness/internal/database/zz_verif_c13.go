package database

import "strings"

// ---- C13: project context only re-ranks, in favour of commands that mention it ----

func c13Contains(c *Command, w string) bool {
	d := c03Doc{
		cmd:  c03Tokens(c.Command),
		desc: c03Tokens(c.Description),
		keys: c03Tokens(strings.Join(c.Keywords, " ")),
		tags: c03Tokens(strings.Join(c.Tags, " ")),
	}
	return c03Count(d.cmd, w)+c03Count(d.desc, w)+c03Count(d.keys, w)+c03Count(d.tags, w) > 0
}

func c13Index(db *Database, c *Command) int {
	for i := range db.Commands {
		if c == &db.Commands[i] {
			return i
		}
	}
	return -1
}

func c13Boost(name string) float64 {
	f := verifFloat64(name)
	verifAssume(f >= 1)
	verifAssume(f <= 1e6)
	return f
}

// paired run: same database, query and options, with and without ContextBoosts
func c13Paired(n, shape int, nlp bool, symbolicDB bool) { c13PairedX(n, shape, nlp, symbolicDB, true) }

func c13PairedX(n, shape int, nlp bool, symbolicDB bool, rich bool) {
	vConcreteWords, vFreshCounter = !symbolicDB, 0
	db := c03DB(n, shape)
	db.BuildUniversalIndex()
	db.buildTFIDFSearcher()
	q1 := vWord("q1", 2)
	q := q1
	boosts := map[string]float64{q1: c13Boost("f1")}
	if rich {
		if verifBool("twoWords") {
			q = q + " " + vWord("q2", 2)
		}
		boosts["aa"] = c13Boost("f2")
	}
	base := SearchOptions{Limit: n + 5, AllPlatforms: true, UseNLP: nlp}
	with := base
	with.ContextBoosts = boosts
	r0 := db.SearchUniversal(q, base)
	r1 := db.SearchUniversal(q, with)
	verifAssert(len(r0) == len(r1), "C13: context boosts never add or remove a candidate")
	for _, a := range r0 {
		ia := c13Index(db, a.Command)
		found := false
		for _, b := range r1 {
			if c13Index(db, b.Command) != ia {
				continue
			}
			found = true
			mentions := false
			for w := range boosts {
				if c13Contains(a.Command, w) {
					mentions = true
				}
			}
			if mentions {
				verifAssert(b.Score >= a.Score, "C13: boosting a word never lowers the score of a command containing it")
			} else {
				verifAssert(c03SameFloat(a.Score, b.Score), "C13: boosting a word never changes the score of a command that does not contain it")
			}
		}
		verifAssert(found, "C13: every candidate without boosts is a candidate with boosts")
	}
	verifReach("paired")
	if len(r0) > 0 {
		verifReach("nonempty")
	}
}

// S = small: concrete database, one query word, one boosted word
func VerifHarness_C13_Paired2S()    { c13PairedX(2, 0, false, false, false) }
func VerifHarness_C13_Paired2NLPS() { c13PairedX(2, 0, true, false, false) }

// Q = concrete database (symbolic query and boosts only)
func VerifHarness_C13_Paired2Q()    { c13Paired(2, verifIntRange("shape", 0, 2), false, false) }
func VerifHarness_C13_Paired3Q()    { c13Paired(3, verifIntRange("shape", 0, 2), false, false) }
func VerifHarness_C13_Paired2NLPQ() { c13Paired(2, verifIntRange("shape", 0, 2), true, false) }
func VerifHarness_C13_Paired3NLPQ() { c13Paired(3, verifIntRange("shape", 0, 2), true, false) }
func VerifHarness_C13_Paired2()     { c13Paired(2, verifIntRange("shape", 0, 2), false, true) }
func VerifHarness_C13_Paired2NLP()  { c13Paired(2, verifIntRange("shape", 0, 2), true, true) }

// NLP on, and the boosted word is itself a detected action / target of the query (the engine
// already emphasises such words): a context boost on it must still never lower a score
func VerifHarness_C13_PairedAction() {
	mk := func(cmd, desc string, kws ...string) Command {
		c := Command{Command: cmd, Description: desc, Keywords: kws}
		vFill(&c)
		return c
	}
	db := &Database{Commands: []Command{
		mk("go build", "build module", "build"), mk("find aa", "search files", "find"), mk("bb", "build files"), mk("cc", "dd"),
	}}
	db.BuildUniversalIndex()
	db.buildTFIDFSearcher()
	word := []string{"build", "find", "files", "module"}[verifIntRange("word", 0, 3)]
	q := word + " " + []string{"module", "files", "aa"}[verifIntRange("second", 0, 2)]
	// factors on a grid (below, at and above the engine's own emphasis of 1.6 / 2.0): all
	// scores stay concrete, the choices stay symbolic
	f := []float64{1, 1.3, 1.5, 1.6, 1.8, 2, 3, 1e6}[verifIntRange("factor", 0, 7)]
	base := SearchOptions{Limit: 9, AllPlatforms: true, UseNLP: true}
	with := base
	with.ContextBoosts = map[string]float64{word: f}
	r0 := db.SearchUniversal(q, base)
	r1 := db.SearchUniversal(q, with)
	// the caller's boost map is an input: a search leaves it as it was (otherwise the next
	// search with the same map boosts words nobody asked for)
	verifAssert(len(with.ContextBoosts) == 1 && with.ContextBoosts[word] == f, "C13: a search does not modify the context boosts it was given")
	verifAssert(len(r0) == len(r1), "C13: context boosts never add or remove a candidate")
	for _, a := range r0 {
		for _, b := range r1 {
			if a.Command != b.Command {
				continue
			}
			if c13Contains(a.Command, word) {
				verifAssert(b.Score >= a.Score, "C13: boosting a word never lowers the score of a command containing it")
			} else {
				verifAssert(c03SameFloat(a.Score, b.Score), "C13: boosting a word never changes the score of a command that does not contain it")
			}
		}
	}
	verifReach("paired")
	if len(r0) > 0 {
		verifReach("nonempty")
	}
}

// long queries that are cut to the term cap: boosts still never add or remove a candidate
func VerifHarness_C13_PairedLongQuery() {
	mk := func(cmd, desc string) Command {
		c := Command{Command: cmd, Description: desc}
		vFill(&c)
		return c
	}
	db := &Database{Commands: []Command{
		mk("aa", "bb cc"), mk("dd", "ee ff"), mk("gg", "hh"), mk("hh ii", "gg hh"), mk("hh", "jj"), mk("kk", "hh"),
	}}
	db.BuildUniversalIndex()
	db.buildTFIDFSearcher()
	q := "aa bb cc dd ee ff gg hh"
	word := []string{"hh", "gg", "ff", "aa"}[verifIntRange("word", 0, 3)]
	base := SearchOptions{Limit: 9, AllPlatforms: true, TopTermsCap: verifIntRange("termsCap", 4, 7), UseNLP: verifBool("nlp")}
	with := base
	with.ContextBoosts = map[string]float64{word: []float64{1, 1.5, 3}[verifIntRange("factor", 0, 2)]}
	r0 := db.SearchUniversal(q, base)
	r1 := db.SearchUniversal(q, with)
	verifAssert(len(r0) == len(r1), "C13: context boosts never add or remove a candidate")
	for _, a := range r0 {
		found := false
		for _, b := range r1 {
			if a.Command == b.Command {
				found = true
				if c13Contains(a.Command, word) {
					verifAssert(b.Score >= a.Score, "C13: boosting a word never lowers the score of a command containing it")
				} else {
					verifAssert(c03SameFloat(a.Score, b.Score), "C13: boosting a word never changes the score of a command that does not contain it")
				}
			}
		}
		verifAssert(found, "C13: context boosts never add or remove a candidate")
	}
	verifReach("paired")
	if len(r0) > 0 {
		verifReach("nonempty")
	}
}

// the typo fallback answers (no query word is in the index): the relation holds there too,
// also for matches whose raw matcher score is negative (long texts)
func VerifHarness_C13_PairedFuzzy() {
	mk := func(cmd, desc string) Command {
		c := Command{Command: cmd, Description: desc}
		vFill(&c)
		return c
	}
	db := &Database{Commands: []Command{
		mk("docker ps --all --format table", "list every running and stopped docker container with its ports and names"),
		mk("podman ps", "list containers"),
		mk("dock", "short"),
		mk("systemctl status docker.service --no-pager --full", "show whether the docker daemon is up, with recent log lines and the full unit description"),
	}}
	db.BuildUniversalIndex()
	db.buildTFIDFSearcher()
	word := []string{"docker", "containers", "list"}[verifIntRange("boosted", 0, 2)]
	f := []float64{1, 1.5, 2, 10, 1e6}[verifIntRange("factor", 0, 4)]
	boosts := map[string]float64{word: f}
	q := []string{"dcker", "dokcer ps", "contaners", "dckr lst"}[verifIntRange("query", 0, 3)]
	base := SearchOptions{Limit: 10, AllPlatforms: true, UseFuzzy: true, UseNLP: verifBool("nlp"),
		FuzzyThreshold: []int{0, -30, -1000}[verifIntRange("threshold", 0, 2)]}
	with := base
	with.ContextBoosts = boosts
	r0 := db.SearchUniversal(q, base)
	r1 := db.SearchUniversal(q, with)
	verifAssert(len(r0) == len(r1), "C13: context boosts never add or remove a candidate")
	for _, a := range r0 {
		ia := c13Index(db, a.Command)
		found := false
		for _, b := range r1 {
			if c13Index(db, b.Command) != ia {
				continue
			}
			found = true
			if c13Contains(a.Command, word) {
				verifAssert(b.Score >= a.Score, "C13: boosting a word never lowers the score of a command containing it")
			} else {
				verifAssert(c03SameFloat(a.Score, b.Score), "C13: boosting a word never changes the score of a command that does not contain it")
			}
		}
		verifAssert(found, "C13: every candidate without boosts is a candidate with boosts")
	}
	verifReach("paired")
	if len(r0) > 0 {
		verifReach("nonempty")
	}
}
