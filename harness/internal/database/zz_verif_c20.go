package database

import "strings"

import (
	"github.com/Vedant9500/WTF/internal/nlp"
)

// ---- C20: letter case in the query never changes the answer ----

// c20Pair returns a lower-case query of n symbolic letters (with an optional
// space at position sp) and an arbitrary re-spelling of it: every letter's case
// is flipped or not according to a symbolic mask bit (no fork per letter).
func c20Pair(n int, sp int) (string, string) {
	lo := make([]byte, n)
	up := make([]byte, n)
	for i := 0; i < n; i++ {
		if i == sp {
			lo[i], up[i] = ' ', ' '
			continue
		}
		b := verifByte("q")
		verifAssume(b >= 'a')
		verifAssume(b <= 'z')
		m := verifByte("mask")
		verifAssume(m <= 1)
		lo[i] = b
		up[i] = b - m*32
	}
	return string(lo), string(up)
}

func c20SameStrings(a, b []string) bool {
	if len(a) != len(b) {
		return false
	}
	for i := range a {
		if a[i] != b[i] {
			return false
		}
	}
	return true
}

// stage by stage: every consumer of the query string sees the same thing
func c20Stages(n, sp int) {
	q, r := c20Pair(n, sp)
	verifAssert(c20SameStrings(normalizeAndTokenize(q), normalizeAndTokenize(r)), "C20: the index / query tokeniser ignores letter case")
	p1 := nlp.NewQueryProcessor().ProcessQuery(q)
	p2 := nlp.NewQueryProcessor().ProcessQuery(r)
	verifAssert(p1.Intent == p2.Intent, "C20: the detected intent ignores letter case")
	verifAssert(c20SameStrings(p1.Keywords, p2.Keywords), "C20: extracted keywords ignore letter case")
	verifAssert(c20SameStrings(p1.Actions, p2.Actions), "C20: detected actions ignore letter case")
	verifAssert(c20SameStrings(p1.Targets, p2.Targets), "C20: detected targets ignore letter case")
	verifAssert(c20SameStrings(p1.GetEnhancedKeywords(), p2.GetEnhancedKeywords()), "C20: the expanded term list ignores letter case")
	verifReach("stages")
}

func VerifHarness_C20_Stages3() { c20Stages(3, -1) }
func VerifHarness_C20_Stages5() { c20Stages(5, 2) }
func VerifHarness_C20_Stages4() { c20Stages(4, -1) }

// end to end on every path: lexical, NLP, typo fallback
func c20EndToEnd(n, sp int, nlpOn bool) {
	db := c04DB(false)
	q, r := c20Pair(n, sp)
	o := SearchOptions{Limit: 5, UseNLP: nlpOn, UseFuzzy: true, FuzzyThreshold: -30, AllPlatforms: true}
	a := db.SearchUniversal(q, o)
	b := db.SearchUniversal(r, o)
	verifAssert(len(a) == len(b), "C20: a re-cased query returns the same number of results")
	if len(a) == len(b) {
		for k := range a {
			verifAssert(a[k].Command == b[k].Command, "C20: a re-cased query returns the same commands in the same order")
			verifAssert(c03SameFloat(a[k].Score, b[k].Score), "C20: a re-cased query returns the same scores")
		}
	}
	verifReach("compared")
	if len(a) > 0 {
		verifReach("nonempty")
	}
}

func VerifHarness_C20_EndToEnd2()    { c20EndToEnd(2, -1, false) }
func VerifHarness_C20_EndToEnd2NLP() { c20EndToEnd(2, -1, true) }
func VerifHarness_C20_EndToEnd5NLP() { c20EndToEnd(5, 2, true) }
func VerifHarness_C20_EndToEnd3()    { c20EndToEnd(3, -1, false) }

// c20Respell returns base (lower-case ASCII text) and a re-spelling whose letters have their
// case flipped according to symbolic mask bits.
func c20Respell(base string) (string, string) {
	up := make([]byte, len(base))
	for i := 0; i < len(base); i++ {
		b := base[i]
		if b >= 'a' && b <= 'z' {
			m := verifByte("mask")
			verifAssume(m <= 1)
			up[i] = b - m*32
		} else {
			up[i] = b
		}
	}
	return base, string(up)
}

// long natural-language queries (context clues such as "without opening", view words inside
// other words) under every re-casing
func VerifHarness_C20_Sentence() {
	base := []string{"print the readme without opening it", "show preview without editing"}[verifIntRange("sentence", 0, 1)]
	q, r := c20Respell(base)
	p1 := nlp.NewQueryProcessor().ProcessQuery(q)
	p2 := nlp.NewQueryProcessor().ProcessQuery(r)
	verifAssert(p1.Intent == p2.Intent, "C20: the detected intent ignores letter case")
	verifAssert(c20SameStrings(p1.Keywords, p2.Keywords), "C20: extracted keywords ignore letter case")
	verifAssert(c20SameStrings(p1.Actions, p2.Actions), "C20: detected actions ignore letter case")
	verifAssert(c20SameStrings(p1.Targets, p2.Targets), "C20: detected targets ignore letter case")
	verifAssert(c20SameStrings(normalizeAndTokenize(q), normalizeAndTokenize(r)), "C20: the index / query tokeniser ignores letter case")
	verifReach("stages")
}

// stop words spelled with capitals in the query and in command texts (TF-IDF re-ranker side)
func VerifHarness_C20_StopWords() {
	mk := func(cmd, desc string) Command {
		c := Command{Command: cmd, Description: desc}
		vFill(&c)
		return c
	}
	db := &Database{Commands: []Command{
		mk("aa", "How to Get The thing"), mk("bb", "get aa thing"), mk("cc", "the thing aa"), mk("dd", "how aa"),
	}}
	db.BuildUniversalIndex()
	db.buildTFIDFSearcher()
	base := []string{"get the aa", "how to get aa thing"}[verifIntRange("sentence", 0, 1)]
	q, r := c20Respell(base)
	o := SearchOptions{Limit: 5, UseNLP: true, AllPlatforms: true}
	a := db.SearchUniversal(q, o)
	b := db.SearchUniversal(r, o)
	verifAssert(len(a) == len(b), "C20: a re-cased query returns the same number of results")
	if len(a) == len(b) {
		for k := range a {
			verifAssert(a[k].Command == b[k].Command, "C20: a re-cased query returns the same commands in the same order")
			verifAssert(c03SameFloat(a[k].Score, b[k].Score), "C20: a re-cased query returns the same scores")
		}
	}
	verifReach("compared")
	if len(a) > 0 {
		verifReach("nonempty")
	}
}

// concrete re-spellings, interior capitals included (GitHub, PowerShell): same answer as lower case
func VerifHarness_C20_Respellings() {
	mk := func(cmd, desc string) Command {
		c := Command{Command: cmd, Description: desc}
		vFill(&c)
		return c
	}
	db := &Database{Commands: []Command{mk("gh repo clone", "clone a github repository"), mk("pwsh", "start powershell"), mk("ipconfig", "show ip address"), mk("zz", "yy")}}
	db.BuildUniversalIndex()
	db.buildTFIDFSearcher()
	sp := [][]string{
		{"github repository", "GitHub repository", "GITHUB Repository", "gitHub rePository"},
		{"powershell", "PowerShell", "POWERSHELL", "powerShell"},
		{"show ip address", "show IP address", "Show Ip ADDRESS", "show iP address"},
	}[verifIntRange("query", 0, 2)]
	o := SearchOptions{Limit: 5, UseNLP: verifBool("nlp"), UseFuzzy: true, FuzzyThreshold: -30, AllPlatforms: true}
	a := db.SearchUniversal(sp[0], o)
	b := db.SearchUniversal(sp[verifIntRange("spelling", 1, 3)], o)
	verifAssert(len(a) == len(b), "C20: a re-cased query returns the same number of results")
	if len(a) == len(b) {
		for k := range a {
			verifAssert(a[k].Command == b[k].Command, "C20: a re-cased query returns the same commands in the same order")
			verifAssert(c03SameFloat(a[k].Score, b[k].Score), "C20: a re-cased query returns the same scores")
		}
	}
	verifReach("compared")
	if len(a) > 0 {
		verifReach("nonempty")
	}
}

// repeated blanks between the words of a query: the legacy entry points (`wtf pipeline`) too
func VerifHarness_C20_LegacySpacing() {
	mk := func(cmd, desc string, pipe bool) Command {
		c := Command{Command: cmd, Description: desc, Pipeline: pipe}
		vFill(&c)
		return c
	}
	db := &Database{Commands: []Command{mk("grep err f | wc -l", "count errors in a log", true), mk("wc -l f", "count lines", false), mk("grep err f | sort | uniq -c", "count distinct errors", true), mk("zz", "yy", false)}}
	db.BuildUniversalIndex()
	base := []string{"count errors", "count distinct errors", "errors log"}[verifIntRange("query", 0, 2)]
	sep := []string{"  ", "\t", " \t ", "   "}[verifIntRange("sep", 0, 3)]
	spaced := strings.ReplaceAll(base, " ", sep)
	o := SearchOptions{Limit: 5, PipelineOnly: verifBool("pipelineOnly"), PipelineBoost: 2}
	for _, pair := range [][2][]SearchResult{
		{db.SearchWithPipelineOptions(base, o), db.SearchWithPipelineOptions(spaced, o)},
		{db.SearchWithOptions(base, o), db.SearchWithOptions(spaced, o)},
		{db.SearchUniversal(base, o), db.SearchUniversal(spaced, o)},
	} {
		a, b := pair[0], pair[1]
		verifAssert(len(a) == len(b), "C20: repeated whitespace in a query does not change the number of results")
		if len(a) == len(b) {
			for k := range a {
				verifAssert(a[k].Command == b[k].Command, "C20: repeated whitespace in a query does not change the results or their order")
				verifAssert(c03SameFloat(a[k].Score, b[k].Score), "C20: repeated whitespace in a query does not change the scores")
			}
		}
	}
	verifReach("compared")
	verifReach("nonempty")
}

// long queries (more terms than the cap) with a capitalised word late in the query
func VerifHarness_C20_LongQueryCase() {
	mk := func(cmd, desc string) Command {
		c := Command{Command: cmd, Description: desc}
		vFill(&c)
		return c
	}
	db := &Database{Commands: []Command{mk("jps -l", "list java processes"), mk("aa", "bb cc dd"), mk("ee", "ff gg hh"), mk("ii", "jj kk ll"), mk("mm", "nn oo pp")}}
	db.BuildUniversalIndex()
	db.buildTFIDFSearcher()
	lower := "aa bb cc dd ee ff gg hh ii jj kk ll restart java service"
	upper := []string{"aa bb cc dd ee ff gg hh ii jj kk ll restart Java service", "AA bb cc dd ee ff gg hh ii jj kk ll restart JAVA Service"}[verifIntRange("spelling", 0, 1)]
	o := SearchOptions{Limit: 8, AllPlatforms: true, UseNLP: verifBool("nlp"), TopTermsCap: []int{0, 6}[verifIntRange("termsCap", 0, 1)]}
	a, b := db.SearchUniversal(lower, o), db.SearchUniversal(upper, o)
	verifAssert(len(a) == len(b), "C20: a re-cased query returns the same number of results")
	if len(a) == len(b) {
		for k := range a {
			verifAssert(a[k].Command == b[k].Command, "C20: a re-cased query returns the same commands in the same order")
			verifAssert(c03SameFloat(a[k].Score, b[k].Score), "C20: a re-cased query returns the same scores")
		}
	}
	verifReach("compared")
	if len(a) > 0 {
		verifReach("nonempty")
	}
}

// letters outside ASCII have upper and lower case too (Cyrillic, accented Latin, Greek): queries
// that differ only in their case give the same answer on every path, TF-IDF re-ranking included
func VerifHarness_C20_RespellingsNonASCII() {
	mk := func(cmd, desc string) Command {
		c := Command{Command: cmd, Description: desc}
		vFill(&c)
		return c
	}
	db := &Database{Commands: []Command{
		mk("ls", "показать файлы каталога"), mk("cat файл", "показать содержимое файла"), mk("mkdir", "créer un répertoire élevé"),
		mk("rm", "Удалить Файлы"), mk("find", "αρχείο εύρεση"), mk("zz", "yy файлы"),
	}}
	db.BuildUniversalIndex()
	db.buildTFIDFSearcher()
	sp := [][]string{
		{"показать файлы", "Показать Файлы", "ПОКАЗАТЬ ФАЙЛЫ", "показать файлЫ"},
		{"créer répertoire", "Créer Répertoire", "CRÉER RÉPERTOIRE", "crÉer répertoire"},
		{"удалить файлы", "Удалить файлы", "УДАЛИТЬ ФАЙЛЫ", "удалитЬ Файлы"},
		{"αρχείο", "Αρχείο", "ΑΡΧΕΊΟ", "αρχΕίο"},
	}[verifIntRange("query", 0, 3)]
	o := SearchOptions{Limit: 5, UseNLP: verifBool("nlp"), UseFuzzy: verifBool("fuzzy"), FuzzyThreshold: -30, AllPlatforms: true}
	entry := verifIntRange("entry", 0, 2)
	search := func(q string) []SearchResult {
		switch entry {
		case 1:
			return db.SearchWithNLP(q, o)
		case 2:
			return NewCachedDatabase(db).SearchWithOptionsAndCache(q, o)
		}
		return db.SearchUniversal(q, o)
	}
	a := search(sp[0])
	b := search(sp[verifIntRange("spelling", 1, 3)])
	verifAssert(len(a) == len(b), "C20: a re-cased query returns the same number of results")
	if len(a) == len(b) {
		for k := range a {
			verifAssert(a[k].Command == b[k].Command, "C20: a re-cased query returns the same commands in the same order")
			verifAssert(c03SameFloat(a[k].Score, b[k].Score), "C20: a re-cased query returns the same scores")
		}
	}
	verifReach("compared")
	if len(a) > 0 {
		verifReach("nonempty")
	}
}
