package database

// ---- C06 through the public entry point only (no unexported helper is named here, so this
// file keeps compiling when such helpers change their shape) ----

// more content words than the term cap: a command that matches only through one of the first
// four words of the query is still a candidate, with enhancement off and on — also when those
// words are verbs the NLP layer files under "actions" and words common in the database
func VerifHarness_C06_FirstFourViaSearch() {
	mk := func(cmd, desc string) Command {
		c := Command{Command: cmd, Description: desc}
		vFill(&c)
		return c
	}
	lead := [][]string{{"copy", "find", "rename", "list"}, {"aa", "copy", "bb", "find"}, {"yank", "umbra", "list", "zz"}}[verifIntRange("lead", 0, 2)]
	rest := []string{"cc", "dd", "ee", "ff", "gg", "hh", "ii", "jj", "kk"}
	var cmds []Command
	// each leading word has one command that only it matches; leading words are made common
	// (low idf) by three filler commands each, the remaining words are rare
	for _, w := range lead {
		cmds = append(cmds, mk("only-"+w, w))
	}
	for k := 0; k < 3; k++ {
		cmds = append(cmds, mk("filler"+string(rune('a'+k)), lead[0]+" "+lead[1]+" "+lead[2]+" "+lead[3]))
	}
	for _, w := range rest {
		cmds = append(cmds, mk("r-"+w, w))
	}
	db := &Database{Commands: cmds}
	db.BuildUniversalIndex()
	db.buildTFIDFSearcher()
	q := lead[0] + " " + lead[1] + " " + lead[2] + " " + lead[3]
	for _, w := range rest {
		q += " " + w
	}
	res := db.SearchUniversal(q, SearchOptions{Limit: 40, AllPlatforms: true, UseNLP: verifBool("nlp"), TopTermsCap: []int{0, 6}[verifIntRange("termsCap", 0, 1)]})
	for k := range lead {
		found := false
		for _, r := range res {
			if r.Command == &db.Commands[k] {
				found = true
			}
		}
		verifAssert(found, "C06: each of the first four content words is retained however long the query is (a command matching only through it is a candidate)")
	}
	verifReach("checked")
	verifReach("nonempty")
}
