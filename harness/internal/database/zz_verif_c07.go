package database

import (
	"github.com/sahilm/fuzzy"
	"math"
	"strings"
)

// ---- C07: typo fallback only when nothing matches, and only genuine matches ----

func c07Fold(b byte) byte {
	if b >= 'A' && b <= 'Z' {
		return b + 32
	}
	return b
}

// c07Subseq: do the bytes of p occur in order in t, ignoring ASCII case?
func c07Subseq(p, t string) bool {
	k := 0
	for i := 0; i < len(t) && k < len(p); i++ {
		if c07Fold(t[i]) == c07Fold(p[k]) {
			k++
		}
	}
	return k == len(p)
}

// (1) enabling the fallback never changes an answer that exists
func c07OnlyFallback(nlp bool) {
	db := c04DB(false)
	q := vWord("q1", 2)
	if verifBool("two") {
		q = q + " " + vWord("q2", 2)
	}
	base := SearchOptions{Limit: verifIntRange("limit", 1, 3), UseNLP: nlp, FuzzyThreshold: verifInt("threshold")}
	off := db.SearchUniversal(q, base)
	with := base
	with.UseFuzzy = true
	on := db.SearchUniversal(q, with)
	if len(off) > 0 {
		verifAssert(len(on) == len(off), "C07: typo tolerance never changes an answer that exists (length)")
		if len(on) == len(off) {
			for k := range off {
				verifAssert(on[k].Command == off[k].Command, "C07: typo tolerance never changes an answer that exists (entries)")
				verifAssert(c03SameFloat(on[k].Score, off[k].Score), "C07: typo tolerance never changes an answer that exists (scores)")
			}
		}
		verifReach("lexical-answer")
	} else {
		verifReach("no-lexical-answer")
	}
}

func VerifHarness_C07_OnlyFallback()    { c07OnlyFallback(false) }
func VerifHarness_C07_OnlyFallbackNLP() { c07OnlyFallback(true) }

// (2) the real matcher on symbolic ASCII bytes: match <=> in-order occurrence; indexes sane
func c07Matcher(pl, tl int) {
	p := verifString("pattern", pl)
	t := verifString("target", tl)
	for i := 0; i < len(p); i++ {
		verifAssume(p[i] < 0x80)
		verifAssume(p[i] != 0) // NUL in targets / patterns is C10's subject
	}
	for i := 0; i < len(t); i++ {
		verifAssume(t[i] < 0x80)
		verifAssume(t[i] != 0)
	}
	ms := fuzzy.Find(p, []string{t})
	matched := len(ms) > 0
	verifAssert(matched == c07Subseq(p, t), "C07: the matcher reports a match exactly when the query's characters occur in order (ignoring case)")
	if matched {
		m := ms[0]
		verifAssert(m.Index == 0 && len(ms) == 1, "C07: one match per target")
		verifAssert(len(m.MatchedIndexes) == len(p), "C07: one matched position per query character")
		prev := -1
		for _, ix := range m.MatchedIndexes {
			verifAssert(ix > prev && ix < len(t), "C07: matched positions are increasing and inside the text")
			prev = ix
		}
		verifReach("matched")
	} else {
		verifReach("unmatched")
	}
}

func VerifHarness_C07_Matcher23() { c07Matcher(verifIntRange("pl", 1, 2), verifIntRange("tl", 0, 3)) }
func VerifHarness_C07_Matcher35() { c07Matcher(verifIntRange("pl", 1, 3), verifIntRange("tl", 0, 5)) }
func VerifHarness_C07_Matcher24() { c07Matcher(verifIntRange("pl", 1, 2), verifIntRange("tl", 0, 4)) }

// (3) fallback results: genuine matches, threshold honoured, best first, never empty-handed
// c07DB: long unbroken words, so that in-word matches collect penalties (negative raw scores)
func c07DB(n int) *Database {
	mk := func(cmd, desc string) Command {
		c := Command{Command: cmd, Description: desc}
		vFill(&c)
		return c
	}
	all := []Command{
		mk("xxabcdefghijklmnop", "qrstuvwxyzabcdefgh"),
		mk("aa bb", "cc aa"),
		mk("mmnnooppqqrrsstt", "uuvvwwxxyyzz"),
		mk("bb", "aa cc cc"),
		mk("hhiijjkkllmmnnoo", "ab"),
	}
	db := &Database{Commands: all[:n]}
	db.BuildUniversalIndex()
	db.buildTFIDFSearcher()
	return db
}

func c07Fallback(n int) {
	db := c07DB(n)
	thr := verifInt("threshold")
	limit := verifIntRange("limit", 1, 3)
	q := string([]byte{verifByte("c1"), verifByte("c2")})
	verifAssume(q[0] >= 'a')
	verifAssume(q[0] <= 'z')
	verifAssume(q[1] >= 'a')
	verifAssume(q[1] <= 'z')
	o := SearchOptions{Limit: limit, UseFuzzy: true, FuzzyThreshold: thr, AllPlatforms: true}
	if len(db.SearchUniversal(q, SearchOptions{Limit: limit, AllPlatforms: true})) > 0 {
		return // answered lexically: not the fallback
	}
	res := db.SearchUniversal(q, o)
	for k, r := range res {
		text := r.Command.Command + " " + r.Command.Description
		verifAssert(c07Subseq(q, text), "C07: every fallback result contains the query's characters in order")
		// the threshold is on the matcher's integer scale; a result's score is (raw+100)/100
		// clamped to [0,1]. Stated on integers (a quotient of the symbolic threshold would put
		// a floating-point division in front of the solver): raw >= thr, up to the clamp.
		switch {
		case thr >= 1:
			verifAssert(r.Score >= 1, "C07: every fallback result is at least as good as the requested threshold")
		case thr != 0 && thr >= -100:
			verifAssert(int(math.Round(r.Score*100))-100 >= thr, "C07: every fallback result is at least as good as the requested threshold")
		default:
			verifAssert(r.Score >= 0, "C07: every fallback result is at least as good as the requested threshold")
		}
		if k > 0 {
			verifAssert(res[k-1].Score >= r.Score, "C07: fallback results are ordered best match first")
		}
	}
	if thr == 0 {
		some := false
		for i := range db.Commands {
			if c07Subseq(q, db.Commands[i].Command+" "+db.Commands[i].Description) {
				some = true
			}
		}
		if some {
			verifAssert(len(res) > 0, "C07: a query occurring in order in some command is never left without a result when no threshold is set")
		}
	}
	verifReach("fallback")
	if len(res) > 0 {
		verifReach("fallback-nonempty")
	}
}

func VerifHarness_C07_Fallback3() { c07Fallback(3) }
func VerifHarness_C07_Fallback5() { c07Fallback(5) }

// lexical answers that exist only through NLP expansion (the query's own words miss the
// index, an expanded term hits): typo tolerance must not change them either
func VerifHarness_C07_OnlyFallbackExpansion() {
	mk := func(cmd, desc string) Command {
		c := Command{Command: cmd, Description: desc}
		vFill(&c)
		return c
	}
	db := &Database{Commands: []Command{
		mk("cp", "duplicate things"), mk("mv", "relocate things"), mk("rm", "erase things"), mk("ls", "enumerate things"),
		mk("mkdir", "new folder"), mk("grep", "pattern lines"), mk("tar", "bundle things"), mk("cat", "print things"),
	}}
	db.BuildUniversalIndex()
	db.buildTFIDFSearcher()
	// a symbolic 4-letter word: the solver tries every table word of that length (copy, move, list, find, show, make, ...)
	q := c06Word("w", 4, 4)
	if verifBool("two") {
		q = q + " " + []string{"files", "directory"}[verifIntRange("second", 0, 1)]
	}
	base := SearchOptions{Limit: 3, UseNLP: true, AllPlatforms: true}
	off := db.SearchUniversal(q, base)
	if len(off) == 0 {
		verifReach("no-lexical-answer") // the fallback's own behaviour is the other harnesses' subject
		return
	}
	with := base
	with.UseFuzzy = true
	on := db.SearchUniversal(q, with)
	if len(off) > 0 {
		verifAssert(len(on) == len(off), "C07: typo tolerance never changes an answer that exists (length)")
		if len(on) == len(off) {
			for k := range off {
				verifAssert(on[k].Command == off[k].Command, "C07: typo tolerance never changes an answer that exists (entries)")
				verifAssert(c03SameFloat(on[k].Score, off[k].Score), "C07: typo tolerance never changes an answer that exists (scores)")
			}
		}
		verifReach("lexical-answer")
	} else {
		verifReach("no-lexical-answer")
	}
}

// a genuine match buried in a very long text (raw fuzzy score far below -100) is still
// returned when no threshold is set
func VerifHarness_C07_FallbackLongText() {
	long := ""
	for i := 0; i < 13; i++ {
		long += "mmmmmmmmmm"
	}
	mk := func(cmd, desc string) Command {
		c := Command{Command: cmd, Description: desc}
		vFill(&c)
		return c
	}
	db := &Database{Commands: []Command{mk(long+"qx", "mmmm"), mk("nn", "oo")}}
	db.BuildUniversalIndex()
	thr := []int{0, -1000}[verifIntRange("threshold", 0, 1)]
	q := string([]byte{verifByte("c1"), verifByte("c2")})
	verifAssume(q[0] >= 'p')
	verifAssume(q[0] <= 'r')
	verifAssume(q[1] >= 'w')
	verifAssume(q[1] <= 'y')
	res := db.SearchUniversal(q, SearchOptions{Limit: 3, UseFuzzy: true, FuzzyThreshold: thr, AllPlatforms: true})
	some := false
	for i := range db.Commands {
		if c07Subseq(q, db.Commands[i].Command+" "+db.Commands[i].Description) {
			some = true
		}
	}
	if some {
		verifAssert(len(res) > 0, "C07: a query occurring in order in some command is never left without a result when no threshold excludes it")
		verifReach("fallback-nonempty")
	}
	for _, r := range res {
		verifAssert(c07Subseq(q, r.Command.Command+" "+r.Command.Description), "C07: every fallback result contains the query's characters in order")
		verifAssert(r.Score >= 0 && r.Score <= 1, "C07: fallback scores are normalised into [0,1]")
	}
	verifReach("fallback")
}

// c07RefScore: the typo-tolerant score of text for q as the property words it — the real
// matcher run on the command's own text, (raw+100)/100 clamped to [0,1].
func c07RefScore(q, text string) (float64, bool) {
	ms := fuzzy.Find(q, []string{text})
	if len(ms) == 0 {
		return 0, false
	}
	s := float64(ms[0].Score+100) / 100
	if s < 0 {
		s = 0
	}
	if s > 1 {
		s = 1
	}
	return s, true
}

// texts whose letter case matters to the matcher (camelCase boundaries): results are scored
// on the command's real text, loaded databases (lower-case caches filled) included
func VerifHarness_C07_FallbackCase() {
	mk := func(cmd, desc string) Command {
		c := Command{Command: cmd, Description: desc}
		if verifBool("cachesFilled") {
			vFill(&c)
		}
		return c
	}
	db := &Database{Commands: []Command{mk("ConvertToJson", "Zq"), mk("xxcyytzzj", "zq"), mk("cxtxj", "Qz"), mk("nn", "oo"), mk("gtimer", "s"), mk("git", "s")}}
	db.BuildUniversalIndex()
	q := []string{"ctj", "cj", "tj", "zz", "gti"}[verifIntRange("query", 0, 4)]
	if len(db.SearchUniversal(q, SearchOptions{Limit: 5, AllPlatforms: true})) > 0 {
		return // answered lexically: not the fallback
	}
	res := db.SearchUniversal(q, SearchOptions{Limit: 5, UseFuzzy: true, FuzzyThreshold: 0, AllPlatforms: true})
	for k, r := range res {
		want, ok := c07RefScore(q, r.Command.Command+" "+r.Command.Description)
		verifAssert(ok, "C07: every fallback result matches the query on the command's own text")
		verifAssert(c03SameFloat(r.Score, want), "C07: a fallback result is scored on the command's own text")
		if k > 0 {
			verifAssert(res[k-1].Score >= r.Score, "C07: fallback results are ordered best match first")
			// best first by the matcher's own quality too (scores are clamped: several matches
			// may share 1.0 or 0.0)
			prev := fuzzy.Find(q, []string{res[k-1].Command.Command + " " + res[k-1].Command.Description})
			cur := fuzzy.Find(q, []string{r.Command.Command + " " + r.Command.Description})
			if len(prev) == 1 && len(cur) == 1 {
				verifAssert(prev[0].Score >= cur[0].Score, "C07: fallback results are ordered best match first (match quality)")
			}
		}
	}
	n := 0
	for i := range db.Commands {
		if _, ok := c07RefScore(q, db.Commands[i].Command+" "+db.Commands[i].Description); ok {
			n++
		}
	}
	verifAssert(len(res) == n, "C07: every command that matches is returned when no threshold is set and the limit allows")
	verifReach("fallback")
	if len(res) > 0 {
		verifReach("fallback-nonempty")
	}
}

// eligibility and the fallback's internal cut: better-matching commands that the platform /
// pipeline filters exclude must not crowd out an eligible match
func VerifHarness_C07_FallbackFiltered() {
	mk := func(cmd, desc string, plat []string, pipe bool) Command {
		c := Command{Command: cmd, Description: desc, Platform: plat, Pipeline: pipe}
		vFill(&c)
		return c
	}
	var cmds []Command
	for i := 0; i < 4; i++ {
		cmds = append(cmds, mk("zqx"+string(rune('a'+i)), "mm", []string{"windows"}, false))
	}
	cmds = append(cmds, mk("nn | zzqqxx", "oo pp", []string{"linux"}, true))
	cmds = append(cmds, mk("zzqx tool", "rr", []string{"cross-platform"}, false))
	db := &Database{Commands: cmds}
	db.BuildUniversalIndex()
	o := SearchOptions{Limit: verifIntRange("limit", 1, 2), UseFuzzy: true, FuzzyThreshold: 0}
	o.PipelineOnly = verifBool("pipelineOnly")
	o.AllPlatforms = verifBool("allPlatforms")
	if verifBool("searchedBefore") {
		// an earlier fallback search on the same database with the other cross-platform setting
		prev := o
		prev.NoCrossPlatform = true
		_ = db.SearchUniversal("zqx", prev)
	}
	res := db.SearchUniversal("zqx", o)
	crossSeen := false
	for _, r := range res {
		if r.Command == &db.Commands[5] {
			crossSeen = true
		}
	}
	if o.Limit >= 2 && !o.PipelineOnly && !o.AllPlatforms {
		// eligible here: the linux pipeline command and the cross-platform entry — both fit
		verifAssert(crossSeen, "C07: a query occurring in order in some eligible command is never left without that result (cross-platform entry, limit allows)")
	}
	for _, r := range res {
		verifAssert(c04Eligible(r.Command, o), "C07: fallback results pass the platform and pipeline filters")
		verifAssert(c07Subseq("zqx", r.Command.Command+" "+r.Command.Description), "C07: every fallback result contains the query's characters in order")
	}
	// the linux pipeline command contains z, q, x in order and is always eligible
	verifAssert(len(res) > 0, "C07: a query occurring in order in some eligible command is never left without a result when no threshold is set")
	verifReach("fallback")
	if len(res) > 0 {
		verifReach("fallback-nonempty")
	}
}

// queries with punctuation: the fallback matches the query as typed
func VerifHarness_C07_FallbackPunct() {
	mk := func(cmd, desc string) Command {
		c := Command{Command: cmd, Description: desc}
		vFill(&c)
		return c
	}
	db := &Database{Commands: []Command{mk("zaqbx", "mm"), mk("z!q", "a|b x*y"), mk("nn", "oo")}}
	db.BuildUniversalIndex()
	p := verifByte("punct")
	verifAssume(p >= '!')
	verifAssume(p <= '/')
	q := []string{"zq" + string([]byte{p}), string([]byte{p}), "z" + string([]byte{p}) + "q"}[verifIntRange("shape", 0, 2)]
	if len(db.SearchUniversal(q, SearchOptions{Limit: 5, AllPlatforms: true})) > 0 {
		return
	}
	res := db.SearchUniversal(q, SearchOptions{Limit: 5, UseFuzzy: true, FuzzyThreshold: 0, AllPlatforms: true})
	some := false
	for i := range db.Commands {
		if c07Subseq(q, db.Commands[i].Command+" "+db.Commands[i].Description) {
			some = true
		}
	}
	for _, r := range res {
		verifAssert(c07Subseq(q, r.Command.Command+" "+r.Command.Description), "C07: every fallback result contains the query's characters in order")
	}
	if some {
		verifAssert(len(res) > 0, "C07: a query occurring in order in some command is never left without a result when no threshold is set")
		verifReach("fallback-nonempty")
	}
	verifReach("fallback")
}

// queries without any index term (one letter, punctuation) and the limit left unset
func VerifHarness_C07_FallbackNoTerms() {
	mk := func(cmd, desc string) Command {
		c := Command{Command: cmd, Description: desc}
		vFill(&c)
		return c
	}
	db := &Database{Commands: []Command{mk("ls -la", "list"), mk("x?y", "mm"), mk("nn", "oo")}}
	db.BuildUniversalIndex()
	q := []string{"l", "x", "?", "-"}[verifIntRange("query", 0, 3)]
	limit := []int{0, 2}[verifIntRange("limit", 0, 1)]
	o := SearchOptions{Limit: limit, UseFuzzy: true, FuzzyThreshold: 0, UseNLP: verifBool("nlp"), AllPlatforms: true}
	if len(db.SearchUniversal(q, SearchOptions{Limit: limit, AllPlatforms: true, UseNLP: o.UseNLP})) > 0 {
		return
	}
	res := db.SearchUniversal(q, o)
	for _, r := range res {
		verifAssert(c07Subseq(q, r.Command.Command+" "+r.Command.Description), "C07: every fallback result contains the query's characters in order")
	}
	verifAssert(len(res) > 0, "C07: a query occurring in order in some command is never left without a result when no threshold is set")
	verifReach("fallback")
	verifReach("fallback-nonempty")
}

// entries that share a command line (or a description) are still separate entries: a query that
// occurs in order only in the text of one of them is answered with that one, wherever it stands
func VerifHarness_C07_FallbackTwins() {
	mk := func(cmd, desc string) Command {
		c := Command{Command: cmd, Description: desc}
		vFill(&c)
		return c
	}
	twin := verifIntRange("twin", 0, 2)
	cmds := []Command{mk("tar -xvf backup.tar", "unpack archive"), mk("ls", "list")}
	switch twin {
	case 0: // same command line, other description
		cmds = append(cmds, mk("tar -xvf backup.tar", "extract verbosely"))
	case 1: // same description, other command line
		cmds = append(cmds, mk("verbosely", "unpack archive"))
	case 2: // same everything but the keywords
		c := Command{Command: "tar -xvf backup.tar", Description: "unpack archive", Keywords: []string{"verbosely"}}
		vFill(&c)
		cmds = append(cmds, c)
	}
	if verifBool("twinFirst") {
		cmds[0], cmds[2] = cmds[2], cmds[0]
	}
	db := &Database{Commands: cmds}
	db.BuildUniversalIndex()
	db.buildTFIDFSearcher()
	o := SearchOptions{Limit: 5, UseFuzzy: true, FuzzyThreshold: 0, AllPlatforms: true, UseNLP: verifBool("nlp")}
	q := []string{"verbosly", "vrbsly"}[verifIntRange("query", 0, 1)]
	res := db.SearchUniversal(q, o)
	for _, r := range res {
		verifAssert(c07Subseq(q, strings.ToLower(r.Command.Command+" "+r.Command.Description+" "+strings.Join(r.Command.Keywords, " "))), "C07: every fallback result contains the query's characters in order")
	}
	if twin != 2 { // (keywords are not stated to be part of the matched text)
		verifAssert(len(res) > 0, "C07: a query occurring in order in some eligible command is never left without a result when no threshold is set")
	}
	verifReach("fallback")
	if len(res) > 0 {
		verifReach("fallback-nonempty")
	}
}
