package database

// ---- C05: the result cache is invisible: cached answers equal fresh answers ----
// Histories of search / invalidate / enable / disable / cleanup / update through
// the caching (and monitoring) layer; after every search the answer is compared
// with an uncached SearchUniversal of the current database with the same query
// and options at that moment.

func c05Options() SearchOptions {
	o := SearchOptions{}
	o.Limit = []int{1, 3, 0}[verifIntRange("limit", 0, 2)]
	o.AllPlatforms = verifBool("allPlatforms")
	o.NoCrossPlatform = verifBool("noCrossPlatform")
	o.PipelineOnly = verifBool("pipelineOnly")
	o.UseFuzzy = verifBool("fuzzy")
	o.UseNLP = verifBool("nlp")
	if verifBool("termCap1") {
		o.TopTermsCap = 1
	}
	if verifBool("platformWindows") {
		o.Platforms = []string{"windows"}
	}
	if verifBool("boost") {
		o.ContextBoosts = map[string]float64{"cc": 3.0}
	}
	return o
}

// c05OptionsFew: the fields that matter most, to keep 3-step histories affordable
func c05OptionsFew() SearchOptions {
	o := SearchOptions{Limit: 3}
	switch verifIntRange("opt", 0, 5) {
	case 1:
		o.AllPlatforms = true
	case 2:
		o.TopTermsCap = 1
	case 3:
		o.Platforms = []string{"windows"}
	case 4:
		o.NoCrossPlatform = true
	case 5:
		o.Limit = 1
	}
	return o
}

var c05Queries = []string{"aa", "AA", "aa cc", "zz", " aa"}

func c05Compare(db *Database, got []SearchResult, q string, o SearchOptions, tag string) {
	want := db.SearchUniversal(q, o)
	verifAssert(len(got) == len(want), "C05: a search through the cache returns what an uncached search returns ("+tag+": count)")
	if len(got) == len(want) {
		for k := range got {
			verifAssert(got[k].Command == want[k].Command, "C05: a search through the cache returns what an uncached search returns ("+tag+": entries)")
			verifAssert(c03SameFloat(got[k].Score, want[k].Score), "C05: a search through the cache returns what an uncached search returns ("+tag+": scores)")
		}
	}
}

func c05History(steps int, monitored bool, few bool) {
	db := c04DB(false)
	var cdb *CachedDatabase
	var mdb *MonitoredDatabase
	if monitored {
		mdb = NewMonitoredDatabase(db)
		cdb = mdb.CachedDatabase
	} else {
		cdb = NewCachedDatabase(db)
	}
	for s := 0; s < steps; s++ {
		op := 0
		if s > 0 && s < steps-1 {
			op = verifIntRange("op", 0, 5)
		}
		switch op {
		case 0: // search
			q := c05Queries[verifIntRange("query", 0, len(c05Queries)-1)]
			var o SearchOptions
			if few {
				o = c05OptionsFew()
			} else {
				o = c05Options()
			}
			var got []SearchResult
			if monitored {
				got = mdb.SearchWithOptionsAndMonitoring(q, o)
			} else {
				got = cdb.SearchWithOptionsAndCache(q, o)
			}
			c05Compare(cdb.Database, got, q, o, "history")
			verifReach("searched")
		case 1:
			cdb.InvalidateCache()
		case 2:
			cdb.EnableCache(false)
		case 3:
			cdb.EnableCache(true)
		case 4:
			verifAdvance("dt")
			cdb.CleanupExpiredCache()
		case 5:
			cdb.UpdateDatabase(c01DB(3).Commands)
		}
	}
	verifReach("done")
}

// two searches whose options differ in exactly one field (every field in turn) and
// whose queries are case / padding variants of each other
func VerifHarness_C05_Delta() {
	db := c04DB(false)
	cdb := NewCachedDatabase(db)
	variants := []string{"aa", "AA", " aa", "ab"}
	o1 := SearchOptions{Limit: []int{1, 3}[verifIntRange("limit", 0, 1)]}
	o1.AllPlatforms = verifBool("allPlatforms")
	o1.NoCrossPlatform = verifBool("noCrossPlatform")
	o1.UseFuzzy = verifBool("fuzzy")
	o1.UseNLP = verifBool("nlp")
	o1.PipelineOnly = verifBool("pipelineOnly")
	q1 := variants[verifIntRange("q1", 0, len(variants)-1)]
	o2 := o1
	switch verifIntRange("delta", 0, 13) {
	case 10:
		o2.PipelineBoost = 2.5
	case 11:
		o1.PipelineBoost, o2.PipelineBoost = 1.5, 3.0
	case 12:
		o2.FuzzyThreshold = -5
	case 13:
		o1.ContextBoosts = map[string]float64{"cc": 2.0}
		o2.ContextBoosts = map[string]float64{"cc": 3.0}
	case 0:
	case 1:
		o2.Limit = 4 - o1.Limit
	case 2:
		o2.AllPlatforms = !o1.AllPlatforms
	case 3:
		o2.NoCrossPlatform = !o1.NoCrossPlatform
	case 4:
		o2.UseFuzzy = !o1.UseFuzzy
	case 5:
		o2.UseNLP = !o1.UseNLP
	case 6:
		o2.PipelineOnly = !o1.PipelineOnly
	case 7:
		o2.TopTermsCap = 1
	case 8:
		o2.Platforms = []string{"windows"}
	case 9:
		o2.ContextBoosts = map[string]float64{"cc": 3.0}
	}
	q2 := variants[verifIntRange("q2", 0, len(variants)-1)]
	r1 := cdb.SearchWithOptionsAndCache(q1, o1)
	c05Compare(db, r1, q1, o1, "first request")
	r2 := cdb.SearchWithOptionsAndCache(q2, o2)
	c05Compare(db, r2, q2, o2, "second request")
	verifReach("searched")
	verifReach("done")
}

func VerifHarness_C05_PairsMonitored() { c05History(2, true, true) }

// search, one arbitrary operation, search
func VerifHarness_C05_Hist3() { c05History(3, false, true) }
func VerifHarness_C05_Hist4() { c05History(4, false, true) }

// targeted 5-step history: an entry must not outlive a replacement made while the cache is off
func VerifHarness_C05_OffOn() {
	db := c04DB(false)
	cdb := NewCachedDatabase(db)
	q := c05Queries[verifIntRange("query", 0, 2)]
	o := SearchOptions{Limit: 3}
	c05Compare(cdb.Database, cdb.SearchWithOptionsAndCache(q, o), q, o, "before")
	switchOff := verifBool("switchOff")
	if switchOff {
		cdb.EnableCache(false)
	}
	switch verifIntRange("change", 0, 2) {
	case 0:
		cdb.UpdateDatabase(c01DB(3).Commands)
	case 1:
		cdb.InvalidateCache()
	case 2:
	}
	if switchOff && verifBool("searchWhileOff") {
		c05Compare(cdb.Database, cdb.SearchWithOptionsAndCache(q, o), q, o, "while off")
	}
	cdb.EnableCache(true)
	got := cdb.SearchWithOptionsAndCache(q, o)
	c05Compare(cdb.Database, got, q, o, "after")
	// C01 on the cached path: results are entries of the database searched now
	c01Shape(cdb.Database, got, o.Limit, "cached answer")
	verifReach("searched")
	verifReach("done")
}

// replacement through the monitoring entry point: an answer cached before it must not survive
func VerifHarness_C05_MonitoredReload() {
	db := c04DB(false)
	mdb := NewMonitoredDatabase(db)
	q := c05Queries[verifIntRange("query", 0, 2)]
	o := SearchOptions{Limit: 3}
	search := func(tag string) {
		var got []SearchResult
		switch verifIntRange("entry", 0, 2) {
		case 0:
			got = mdb.SearchWithOptionsAndMonitoring(q, o)
		case 1:
			got = mdb.SearchWithOptionsAndCache(q, o)
		case 2:
			got = mdb.SearchWithMonitoring(q, o.Limit)
		}
		c05Compare(mdb.Database, got, q, o, tag)
	}
	search("before")
	switch verifIntRange("change", 0, 1) {
	case 0:
		_ = mdb.LoadDatabaseWithMonitoring(c01DB(3).Commands)
	case 1:
		mdb.UpdateDatabase(c01DB(3).Commands)
	}
	search("after a monitored reload")
	verifReach("searched")
	verifReach("done")
}

// two requests for one query whose integer options differ in several fields at once (keys must
// keep the fields apart, not just their concatenated digits)
func VerifHarness_C05_KeyGrid() {
	cdb := NewCachedDatabase(c04DB(false))
	pick := func() SearchOptions {
		return SearchOptions{
			Limit:          []int{1, 10, 101, 0, -4}[verifIntRange("limit", 0, 4)],
			FuzzyThreshold: []int{0, 1, -30}[verifIntRange("threshold", 0, 2)],
			TopTermsCap:    []int{0, 2, 12}[verifIntRange("termsCap", 0, 2)],
			UseFuzzy:       true,
			AllPlatforms:   true, // all seven entries match "aa": limits 0 (= 10), 1, 10 and 101 cut differently
		}
	}
	o1, o2 := pick(), pick()
	c05Compare(cdb.Database, cdb.SearchWithOptionsAndCache("aa", o1), "aa", o1, "first request")
	c05Compare(cdb.Database, cdb.SearchWithOptionsAndCache("aa", o2), "aa", o2, "second request, other integer options")
	verifReach("searched")
	verifReach("done")
}

// queries that differ in interior spacing are different requests where the engine reads the
// text as typed (typo fallback, NLP context phrases)
func VerifHarness_C05_Spacing() {
	mk := func(cmd, desc string) Command {
		c := Command{Command: cmd, Description: desc}
		vFill(&c)
		return c
	}
	db := &Database{Commands: []Command{mk("ka bz", "mm"), mk("zqxw", "nn"), mk("view file", "show file without opening it"), mk("oo", "pp")}}
	db.BuildUniversalIndex()
	db.buildTFIDFSearcher()
	cdb := NewCachedDatabase(db)
	// "a b" has no index term (one-letter words): the typo fallback matches it as typed, and
	// with two blanks it no longer is a subsequence of "ka bz mm"
	pair := [][2]string{{"a b", "a  b"}, {"k z", "k   z"}, {"show file without opening", "show file without  opening"}}[verifIntRange("pair", 0, 2)]
	first, second := pair[0], pair[1]
	if verifBool("swap") {
		first, second = second, first
	}
	o := SearchOptions{Limit: 5, UseFuzzy: true, FuzzyThreshold: 0, UseNLP: verifBool("nlp"), AllPlatforms: true}
	c05Compare(cdb.Database, cdb.SearchWithOptionsAndCache(first, o), first, o, "first spelling")
	c05Compare(cdb.Database, cdb.SearchWithOptionsAndCache(second, o), second, o, "second spelling (other interior spacing)")
	verifReach("searched")
	verifReach("done")
}

// several cached answers, then a replacement: none of them survives
func VerifHarness_C05_ManyThenReplace() {
	mdb := NewMonitoredDatabase(c04DB(false))
	o := SearchOptions{Limit: 3, AllPlatforms: true}
	qs := []string{"aa", "bb", "aa cc", "git"}
	n := verifIntRange("cached", 2, 4)
	for k := 0; k < n; k++ {
		c05Compare(mdb.Database, mdb.SearchWithOptionsAndCache(qs[k], o), qs[k], o, "before")
	}
	switch verifIntRange("change", 0, 2) {
	case 0:
		mdb.UpdateDatabase(c01DB(3).Commands)
	case 1:
		_ = mdb.LoadDatabaseWithMonitoring(c01DB(3).Commands)
	case 2:
		mdb.InvalidateCache()
		mdb.Database.Commands = c01DB(3).Commands
		mdb.Database.BuildUniversalIndex()
	}
	k := verifIntRange("again", 0, n-1)
	c05Compare(mdb.Database, mdb.SearchWithOptionsAndCache(qs[k], o), qs[k], o, "after the replacement (one of several cached requests)")
	verifReach("searched")
	verifReach("done")
}

// option values edited in place between two requests (the same map / slice object)
func VerifHarness_C05_EditedOptions() {
	cdb := NewCachedDatabase(c04DB(false))
	boosts := map[string]float64{"aa": 1.5}
	plats := []string{"windows"}
	o := SearchOptions{Limit: 5, ContextBoosts: boosts, Platforms: plats}
	c05Compare(cdb.Database, cdb.SearchWithOptionsAndCache("aa", o), "aa", o, "first request")
	switch verifIntRange("edit", 0, 2) {
	case 0:
		boosts["aa"] = 3
	case 1:
		boosts["cc"] = 2
	case 2:
		plats[0] = "macos"
	}
	c05Compare(cdb.Database, cdb.SearchWithOptionsAndCache("aa", o), "aa", o, "second request after editing the option values in place")
	verifReach("searched")
	verifReach("done")
}

// NLP re-ranking sizes its candidate window from the limit: a cached answer for limit L is the
// answer of an uncached search with limit L (not a prefix of a larger page)
func VerifHarness_C05_NLPLimits() {
	var cmds []Command
	words := []string{"snapshot", "volume", "backup", "restore", "disk", "image", "clone", "mount"}
	for i := 0; i < 40; i++ {
		desc := "snapshot"
		for k := 0; k <= i%5; k++ {
			desc += " " + words[(i+k)%len(words)]
		}
		c := Command{Command: "snap" + string(rune('a'+i%26)) + string(rune('a'+i/26)), Description: desc, Keywords: []string{words[i%len(words)]}}
		vFill(&c)
		cmds = append(cmds, c)
	}
	if verifBool("decoupled") {
		// twelve commands that rank high lexically (query words in the command line, among many
		// other words) and one that ranks low lexically but is closest by TF-IDF (its
		// description is exactly the query): which one is first depends on the window size
		cmds = nil
		for i := 0; i < 12; i++ {
			u := string(rune('a' + i))
			c := Command{Command: "tool" + u + " snapshot backup x" + u + " y" + u + " z" + u + " w" + u + " v" + u, Description: "tool " + u + " misc" + u}
			vFill(&c)
			cmds = append(cmds, c)
		}
		c := Command{Command: "qq", Description: "snapshot backup"}
		vFill(&c)
		cmds = append(cmds, c)
		// commands that do not match: they make the query words rare, so the similarity counts
		for i := 0; i < 40; i++ {
			u := string(rune('a'+i%26)) + string(rune('a'+i/26))
			f := Command{Command: "fill" + u, Description: "other " + u + " thing" + u}
			vFill(&f)
			cmds = append(cmds, f)
		}
	}
	db := &Database{Commands: cmds}
	db.BuildUniversalIndex()
	db.buildTFIDFSearcher()
	cdb := NewCachedDatabase(db)
	q := []string{"snapshot backup", "restore disk image"}[verifIntRange("query", 0, 1)]
	o := SearchOptions{Limit: []int{1, 2, 3, 7, 12}[verifIntRange("limit", 0, 4)], UseNLP: true, AllPlatforms: true}
	c05Compare(cdb.Database, cdb.SearchWithOptionsAndCache(q, o), q, o, "NLP search, first request")
	c05Compare(cdb.Database, cdb.SearchWithOptionsAndCache(q, o), q, o, "NLP search, cached")
	verifReach("searched")
	verifReach("done")
}

// an empty answer is an answer like any other: after the database is replaced (or the cache is
// invalidated, switched off and on, swept after expiry) a query that matched nothing before is
// answered from the database as it is now — and the other way round
func VerifHarness_C05_EmptyThenReplace() {
	with := []Command{{Command: "qqzz run", Description: "does qqzz things"}, {Command: "other", Description: "qqzz too"}}
	for k := range with {
		vFill(&with[k])
	}
	without := c01DB(3).Commands
	first, second := without, with
	if verifBool("matchFirst") {
		first, second = with, without
	}
	db := &Database{Commands: first}
	db.BuildUniversalIndex()
	mdb := NewMonitoredDatabase(db)
	q := []string{"qqzz", "QQZZ ", "qqzz things"}[verifIntRange("query", 0, 2)]
	o := SearchOptions{Limit: 3, AllPlatforms: true, UseNLP: verifBool("nlp"), UseFuzzy: verifBool("fuzzy")}
	search := func(tag string) {
		var got []SearchResult
		switch verifIntRange("entry", 0, 1) {
		case 0:
			got = mdb.SearchWithOptionsAndMonitoring(q, o)
		case 1:
			got = mdb.SearchWithOptionsAndCache(q, o)
		}
		c05Compare(mdb.Database, got, q, o, tag)
	}
	search("before")
	search("repeated")
	switch verifIntRange("change", 0, 4) {
	case 0:
		_ = mdb.LoadDatabaseWithMonitoring(second)
	case 1:
		mdb.UpdateDatabase(second)
	case 2:
		mdb.EnableCache(false)
		mdb.UpdateDatabase(second)
		mdb.EnableCache(true)
	case 3:
		mdb.Database.Commands = second
		mdb.Database.BuildUniversalIndex()
		mdb.InvalidateCache()
	case 4:
		mdb.UpdateDatabase(second)
		verifAdvance("dt")
		mdb.CleanupExpiredCache()
	}
	search("after the database changed")
	verifReach("searched")
	verifReach("done")
}
