package database

// ---- C18 (database side): the monitor's per-search totals equal the number of searches ----

func VerifHarness_C18_MonitoredSearches() {
	mdb := NewMonitoredDatabase(c01DB(3))
	n := verifIntRange("searches", 1, 3)
	for i := 0; i < n; i++ {
		q := []string{"aa", "bb", "zz"}[verifIntRange("query", 0, 2)]
		if verifBool("withOptions") {
			mdb.SearchWithOptionsAndMonitoring(q, SearchOptions{Limit: 3})
		} else {
			mdb.SearchWithMonitoring(q, 3)
		}
	}
	total, seen := 0.0, 0
	for _, m := range mdb.GetPerformanceReport().ApplicationMetrics {
		if m.Name == "searches_total" {
			total += m.Value
			seen++
		}
	}
	verifAssert(seen >= 1 && seen <= 2, "C18: searches are counted in one series per cache-hit value")
	verifAssert(total == float64(n), "C18: the monitor's search total equals the number of searches made (cached answers included)")
	verifReach("monitored")
}
