package database

// ---- C10: no input crashes the engine ----
// Any escaping run-time panic (index, slice, nil, makeslice, division) on a
// feasible path is reported by the executor as a finding with a concrete input.

// arbitrary bytes in a command's text, answered by the typo fallback
func c10FuzzyText(l int) {
	text := verifString("text", l) // full byte range, NUL and invalid UTF-8 included
	c := Command{Command: "a" + text, Description: "bb"}
	vFill(&c)
	db := &Database{Commands: []Command{c, {Command: "cc", Description: "dd", CommandLower: "cc", DescriptionLower: "dd"}}}
	db.BuildUniversalIndex()
	q := []string{"a", "ab", "zq"}[verifIntRange("query", 0, 2)]
	res := db.SearchUniversal(q, SearchOptions{Limit: 3, UseFuzzy: true, AllPlatforms: true})
	verifAssert(len(res) <= 3, "C10: search over arbitrary command text returns a bounded list")
	verifReach("returned")
}

func VerifHarness_C10_FuzzyText2() { c10FuzzyText(2) }
func VerifHarness_C10_FuzzyText3() { c10FuzzyText(3) }

// suggestions over arbitrary command text and any maximum
func VerifHarness_C10_Suggestions() {
	text := verifString("text", 2)
	db := &Database{Commands: []Command{{Command: "abc" + text, Description: "list files"}, {Command: "grep", Description: "search text"}}}
	q := []string{"a", "ab", "ls"}[verifIntRange("query", 0, 2)]
	s := db.GetSuggestions(q, verifInt("max"))
	verifAssert(len(s) <= 2+len(text), "C10: suggestions are a bounded list")
	verifReach("returned")
}

// arbitrary bytes as the query, arbitrary integers / floats as options, every entry point
func c10Query(l int, nlp bool) {
	db := c01DB(3)
	q := verifString("q", l)
	o := SearchOptions{
		Limit:          verifInt("limit"),
		TopTermsCap:    verifInt("termsCap"),
		FuzzyThreshold: verifInt("threshold"),
		PipelineBoost:  verifFloat64("pipelineBoost"),
		UseFuzzy:       verifBool("fuzzy"),
		UseNLP:         nlp,
		PipelineOnly:   verifBool("pipelineOnly"),
		AllPlatforms:   verifBool("allPlatforms"),
	}
	res := db.SearchUniversal(q, o)
	lim := o.Limit
	if lim <= 0 {
		lim = 10
	}
	verifAssert(len(res) <= lim, "C10: any query and options give a bounded list")
	verifReach("returned")
}

func VerifHarness_C10_Query2()    { c10Query(2, false) }
func VerifHarness_C10_Query3()    { c10Query(3, false) }
func VerifHarness_C10_Query2NLP() { c10Query(2, true) }

// the tokeniser on arbitrary bytes: terminates, yields only non-trivial tokens
func c10Tokenize(l int) {
	s := verifString("s", l)
	toks := normalizeAndTokenize(s)
	for _, t := range toks {
		verifAssert(len(t) >= 2, "C10: tokens have at least two bytes")
		verifAssert(!stopWords[t], "C10: stop words are never indexed")
	}
	verifAssert(len(toks) <= l, "C10: no more tokens than bytes")
	verifReach("returned")
}

func VerifHarness_C10_Tokenize3() { c10Tokenize(3) }
func VerifHarness_C10_Tokenize4() { c10Tokenize(4) }

// legacy entry points with arbitrary option values
func VerifHarness_C10_Legacy() {
	db := c01DB(3)
	q := verifString("q", 2)
	o := SearchOptions{Limit: verifInt("limit"), PipelineBoost: verifFloat64("pipelineBoost"), PipelineOnly: verifBool("pipelineOnly"),
		UseFuzzy: verifBool("fuzzy"), FuzzyThreshold: verifInt("threshold"), UseNLP: verifBool("nlp")}
	switch verifIntRange("entry", 0, 3) {
	case 0:
		_ = db.SearchWithOptions(q, o)
	case 1:
		_ = db.SearchWithPipelineOptions(q, o)
	case 2:
		_ = db.SearchWithFuzzy(q, o)
	case 3:
		_ = db.SearchWithNLP(q, o)
	}
	verifReach("returned")
}

// loading: from the decoder outward
func c10ErrText(err error) string {
	if err == nil {
		return ""
	}
	return err.Error() + " | " + func() string {
		type detailed interface{ GetTechnicalDetails() string }
		if d, ok := err.(detailed); ok {
			return d.GetTechnicalDetails()
		}
		return ""
	}()
}

func VerifHarness_C10_Load() {
	path := verifFSRoot() + []string{"/db/commands.yml", "/db/commands.yaml", "/db/my-unmarshal-notes.yml"}[verifIntRange("fileName", 0, 2)]
	state := verifIntRange("state", 0, 5)
	n := 0
	if state == 5 { // well-formed YAML of another shape than a list of command entries
		switch verifIntRange("shape", 0, 2) {
		case 0:
			verifFSPutDoc(path, "yaml", map[string]string{"command": "ls"})
		case 1:
			verifFSPutDoc(path, "yaml", "just a sentence")
		case 2:
			verifFSPutDoc(path, "yaml", [][]string{{"ls", "list"}})
		}
		state = 2
	}
	if state == 4 { // no YAML document at all: the empty list, spelled as an empty or comment-only file
		if verifBool("commentOnly") {
			verifFSPutBytes(path, []byte("# commands go here\n"))
		} else {
			verifFSPutBytes(path, nil)
		}
		state = 3
	}
	switch state {
	case 0: // missing
	case 1:
		verifFSMkdir(path)
	case 2:
		if !verifFSExists(path) {
			verifFSPutGarbage(path)
		}
	case 3:
		n = verifIntRange("entries", 0, 2)
		var cmds []Command
		for i := 0; i < n; i++ {
			cmds = append(cmds, Command{Command: "c" + string(rune('a'+i)) + " x", Description: "desc " + string(rune('a'+i)), Keywords: []string{"kw"}})
		}
		if !verifFSExists(path) {
			verifFSPutDoc(path, "yaml", cmds)
		} else {
			n = 0
		}
	}
	db, err := LoadDatabase(path)
	switch state {
	case 0:
		verifAssert(err != nil && db == nil, "C10: a missing file is an error")
		if err != nil {
			verifAssert(containsAnyLocal(c10ErrText(err), []string{"not found"}), "C10: a missing file is reported as not-found")
		}
		verifReach("not-found")
	case 1:
		verifAssert(err != nil && db == nil, "C10: a directory in place of the file is an error")
		verifReach("other-error")
	case 2:
		verifAssert(err != nil && db == nil, "C10: undecodable content is an error")
		if err != nil {
			verifAssert(containsAnyLocal(c10ErrText(err), []string{"parse"}), "C10: undecodable content is reported as a parse error")
		}
		verifReach("parse-error")
	case 3:
		verifAssert(err == nil && db != nil, "C10: every well-formed list of entries loads")
		if db != nil {
			verifAssert(len(db.Commands) == n, "C10: every entry of the file is loaded")
			q := "c" + verifString("q", 1)
			_ = db.SearchUniversal(q, SearchOptions{Limit: verifInt("limit"), UseFuzzy: true, UseNLP: verifBool("nlp")})
			_ = db.GetSuggestions(q, 3)
		}
		verifReach("loaded")
	}
}

// well-formed entries with missing / blank fields, reached through every ranking stage
func VerifHarness_C10_EmptyFields() {
	blank := []string{"", " ", "  "}[verifIntRange("blank", 0, 2)]
	cmds := []Command{
		{Command: blank, Description: "create directory", Keywords: []string{"make", "folder"}},
		{Command: "ls", Description: blank, Keywords: nil},
		{Command: "mkdir", Description: "create directory", Keywords: []string{blank}, Tags: []string{blank}, Niche: blank},
	}
	for i := range cmds {
		vFill(&cmds[i])
	}
	db := &Database{Commands: cmds}
	db.BuildUniversalIndex()
	db.buildTFIDFSearcher()
	q := []string{"create directory", "make folder", "ls", "list files", "zz"}[verifIntRange("query", 0, 4)]
	o := SearchOptions{Limit: 5, UseNLP: verifBool("nlp"), UseFuzzy: verifBool("fuzzy"), AllPlatforms: true}
	_ = db.SearchUniversal(q, o)
	_ = db.GetSuggestions(q, 3)
	_ = db.SearchWithNLP(q, o)
	_ = db.SearchWithFuzzy(q, o)
	verifReach("returned")
}

// long queries (more informative terms than any cap) with the term cap an arbitrary integer
func VerifHarness_C10_LongQueryCap() {
	db := c01DB(5) // vocabulary: aa bb cc dd ee ff gg
	q := []string{"aa bb cc dd ee ff", "aa bb cc dd ee ff gg hh ii jj kk ll", "gg ff ee dd cc"}[verifIntRange("query", 0, 2)]
	o := SearchOptions{Limit: 5, TopTermsCap: verifInt("termsCap"), UseNLP: verifBool("nlp"), AllPlatforms: true}
	res := db.SearchUniversal(q, o)
	verifAssert(len(res) <= 5, "C10: any query and options give a bounded list")
	verifReach("returned")
}

// legacy keyword scorers on commands in which a query word occurs several times
func VerifHarness_C10_LegacyRepeats() {
	mk := func(cmd, desc string) Command {
		c := Command{Command: cmd, Description: desc}
		vFill(&c)
		return c
	}
	db := &Database{Commands: []Command{mk("tar -xzf archive.tar.gz", "extract"), mk("brew install zoooom", "install"), mk("abab ab", "ab"), mk("nn", "oo")}}
	db.BuildUniversalIndex()
	q := []string{"ar", "oo", "ab", "tar ar", "zo oo"}[verifIntRange("query", 0, 4)]
	o := SearchOptions{Limit: 5}
	switch verifIntRange("entry", 0, 2) {
	case 0:
		_ = db.SearchWithOptions(q, o)
	case 1:
		_ = db.SearchWithPipelineOptions(q, o)
	case 2:
		_ = db.Search(q, 5)
	}
	verifReach("returned")
}

// query words made of or containing punctuation that also stand verbatim in a command's text
// (c++, "(release", "[dir", a trailing backslash, *.go, file?) through every entry point
func VerifHarness_C10_PunctWords() {
	mk := func(cmd, desc string) Command {
		c := Command{Command: cmd, Description: desc, Keywords: []string{"c++", "*.go"}}
		vFill(&c)
		return c
	}
	db := &Database{Commands: []Command{
		mk("g++ -o app main.cpp", "compile c++ code"), mk("git tag v1", "tag a (release build)"), mk("ls [dir", "list [dir contents"),
		mk("cd a\\", "path a\\ b"), mk("find . -name '*.go'", "find *.go files"), mk("which file?", "is file? there"), mk("a|b", "x{2 y"), mk("^start end$", "+plus"),
	}}
	db.BuildUniversalIndex()
	db.buildTFIDFSearcher()
	q := []string{"c++", "compile c++", "(release", "[dir", "a\\", "*.go", "file?", "x{2", "a|b", "^start", "end$", "+plus", "(", "\\"}[verifIntRange("query", 0, 13)]
	o := SearchOptions{Limit: 5, AllPlatforms: true}
	switch verifIntRange("entry", 0, 6) {
	case 0:
		_ = db.SearchWithOptions(q, o)
	case 1:
		_ = db.SearchWithPipelineOptions(q, o)
	case 2:
		_ = db.Search(q, 5)
	case 3:
		o.UseFuzzy = true
		_ = db.SearchWithFuzzy(q, o)
	case 4:
		_ = db.SearchWithNLP(q, o)
	case 5:
		o.UseNLP = verifBool("nlp")
		o.UseFuzzy = true
		_ = db.SearchUniversal(q, o)
	case 6:
		_ = db.GetSuggestions(q, 3)
	}
	verifReach("returned")
}
