package database

import "strings"

// ---- C04: platform and pipeline filters hold for every result on every path ----

// c04TagMatches: does the declared tag p name the platform `want` (an OS name as
// the user or the host detection spells it)? Spelled from the documented alias
// table, independent of the engine's gate: canonical name, case-insensitive,
// plus the documented aliases.
func c04TagMatches(p, want string) bool {
	pl := strings.ToLower(p)
	wl := strings.ToLower(want)
	if strings.TrimSpace(wl) == "" || strings.TrimSpace(pl) == "" {
		return false // an empty name names no platform
	}
	if wl == "darwin" {
		wl = "macos"
	}
	if pl == wl {
		return true
	}
	switch wl {
	case "windows":
		return pl == "cmd" || pl == "powershell" || pl == "windows-cmd" || pl == "windows-powershell" || strings.HasPrefix(pl, "windows")
	case "macos":
		return pl == "darwin" || strings.HasPrefix(pl, "macos")
	case "linux":
		return pl == "unix" || pl == "bash" || pl == "zsh" || strings.HasPrefix(pl, "linux")
	}
	return false
}

func c04HasCrossTag(c *Command) bool {
	for _, p := range c.Platform {
		if strings.EqualFold(p, "cross-platform") {
			return true
		}
	}
	return false
}

// c04Eligible is the filter of the property statement.
func c04Eligible(c *Command, o SearchOptions) bool {
	if o.PipelineOnly && !isPipelineCommand(c) {
		return false
	}
	if o.AllPlatforms || len(c.Platform) == 0 {
		return true
	}
	inForce := o.Platforms
	if len(inForce) == 0 {
		inForce = []string{getCurrentPlatform()}
	}
	for _, want := range inForce {
		for _, p := range c.Platform {
			if c04TagMatches(p, want) {
				return true
			}
		}
	}
	if o.NoCrossPlatform {
		return false
	}
	return c04HasCrossTag(c) || c04IsTool(c.Command)
}

// c04IsTool: "a recognised cross-platform tool" spelled independently of the engine's test —
// the command's first blank-separated word is, exactly, a name of the documented tool table
// (the table is data; the matching rule is what is spelled independently here: look-alikes
// such as "git-lfs", "git.exe" or "find-module" are other programs).
func c04IsTool(cmd string) bool {
	f := strings.Fields(strings.ToLower(cmd))
	return len(f) > 0 && crossPlatformTools[f[0]]
}

// c04Extra adds two entries to c04DB (set by the C04 harnesses only: other properties share
// the 7-entry database and their floating-point queries grow with it)
var c04Extra bool

func c04DB(symbolicTag bool) *Database {
	mk := func(cmd, desc string, plat []string, pipe bool) Command {
		c := Command{Command: cmd, Description: desc, Platform: plat, Pipeline: pipe}
		vFill(&c)
		return c
	}
	cmds := []Command{
		mk("aa", "bb", []string{"linux"}, false),
		mk("aa cc", "bb", []string{"windows"}, false),
		mk("git aa", "bb", []string{"windows"}, false),
		mk("aa dd", "bb", []string{"cross-platform"}, false),
		mk("aa | ee", "bb", nil, true),
		mk("aa ff", "bb", []string{"Darwin", "PowerShell"}, false),
		mk("aa gg", "bb", []string{"MACOS"}, false),
	}
	if c04Extra {
		// a recognised cross-platform tool listed before a plain command with the same tag list
		cmds = append(cmds, mk("git aa ii", "bb", []string{"freebsd"}, false), mk("aa jj", "bb", []string{"freebsd"}, false))
		// programs whose names merely begin with a recognised tool's name
		cmds = append(cmds, mk("find-module aa", "bb", []string{"windows"}, false), mk("ssh-copy-id aa", "bb", []string{"macos"}, false), mk("git.exe aa", "bb", []string{"windows"}, false))
	}
	if symbolicTag {
		tag := verifString("tag", 5)
		for i := 0; i < len(tag); i++ {
			verifAssume(tag[i] >= 'A')
			verifAssume(tag[i] <= 'z')
			verifAssume(tag[i] <= 'Z' || tag[i] >= 'a')
		}
		cmds = append(cmds, mk("aa hh", "bb", []string{tag}, false))
	}
	db := &Database{Commands: cmds}
	db.BuildUniversalIndex()
	db.buildTFIDFSearcher()
	return db
}

func c04Options() SearchOptions {
	o := SearchOptions{Limit: 20}
	o.AllPlatforms = verifBool("allPlatforms")
	o.NoCrossPlatform = verifBool("noCrossPlatform")
	o.PipelineOnly = verifBool("pipelineOnly")
	switch verifIntRange("platforms", 0, 6) {
	case 6: // every major system named: still a filter (entries of other systems stay out)
		o.Platforms = []string{"linux", "macOS", "windows"}
	case 4: // `--platform linux,` parses to a list with an empty element
		o.Platforms = []string{"linux", ""}
	case 5:
		o.Platforms = []string{" "}
	case 1:
		o.Platforms = []string{"windows"}
	case 2:
		o.Platforms = []string{"macos"}
	case 3:
		o.Platforms = []string{"linux", "windows"}
	}
	return o
}

func c04Check(db *Database, res []SearchResult, o SearchOptions, tag string) {
	for _, r := range res {
		verifAssert(c04Eligible(r.Command, o), "C04: every result passes the platform and pipeline filters ("+tag+")")
	}
}

// lexical / NLP paths: the query word hits the index
func c04Lexical(nlp, symbolicTag bool) {
	c04Extra = true
	db := c04DB(symbolicTag)
	c04Extra = false
	o := c04Options()
	o.UseNLP = nlp
	q := vWord("q", 2) // "aa" and "bb" hit every entry
	res := db.SearchUniversal(q, o)
	c04Check(db, res, o, "lexical")
	verifReach("checked")
	if len(res) > 0 {
		verifReach("nonempty")
	}
}

func VerifHarness_C04_Lexical()    { c04Lexical(false, false) }
func VerifHarness_C04_NLP()        { c04Lexical(true, false) }
func VerifHarness_C04_LexicalTag() { c04Lexical(false, true) }

// typo fallback: the query misses the index and is answered by the fuzzy matcher
func VerifHarness_C04_Fuzzy() {
	db := c04DB(false)
	o := c04Options()
	o.UseFuzzy = true
	q := "a" + vWord("q", 1) // e.g. "ab": subsequence of several entries, not an indexed word
	res := db.SearchUniversal(q, o)
	c04Check(db, res, o, "typo fallback")
	verifReach("checked")
	if len(res) > 0 {
		verifReach("nonempty")
	}
}

// legacy pipeline search
func VerifHarness_C04_LegacyPipeline() {
	db := c04DB(false)
	o := SearchOptions{Limit: 20, PipelineOnly: verifBool("pipelineOnly")}
	q := vWord("q", 2)
	res := db.SearchWithPipelineOptions(q, o)
	for _, r := range res {
		if o.PipelineOnly {
			verifAssert(isPipelineCommand(r.Command), "C04: pipeline-only legacy search returns only pipeline commands")
		}
	}
	verifReach("checked")
}

// cached answers: two requests through the cache layer whose filter options differ (or not);
// the second answer must pass the filter of the second request
func VerifHarness_C04_Cached() {
	c04Extra = true
	db := c04DB(false)
	c04Extra = false
	monitored := verifBool("monitored")
	mdb := NewMonitoredDatabase(db)
	o1 := SearchOptions{Limit: 20, NoCrossPlatform: verifBool("noCross1"), AllPlatforms: verifBool("all1")}
	o2 := c04Options()
	search := func(o SearchOptions) []SearchResult {
		if monitored {
			return mdb.SearchWithOptionsAndMonitoring("aa", o)
		}
		return mdb.SearchWithOptionsAndCache("aa", o)
	}
	c04Check(db, search(o1), o1, "cached, first request")
	res := search(o2)
	c04Check(db, res, o2, "cached, second request")
	verifReach("checked")
	if len(res) > 0 {
		verifReach("nonempty")
	}
}

// the pipeline gate looks at the command as it is now (an entry edited in place after the
// index was built keeps its postings but may have stopped being a pipeline)
func VerifHarness_C04_EditedInPlace() {
	db := c04DB(false)
	k := 4 // "aa | ee", flagged as pipeline
	if verifBool("dropFlag") {
		db.Commands[k].Pipeline = false
	}
	if verifBool("dropPipe") {
		db.Commands[k].Command = "aa ee"
		vFill(&db.Commands[k])
	}
	o := c04Options()
	o.UseNLP = verifBool("nlp")
	res := db.SearchUniversal("aa", o)
	c04Check(db, res, o, "entry edited in place")
	verifReach("checked")
	if len(res) > 0 {
		verifReach("nonempty")
	}
}

// a database in which the query words are not in (nearly) every command, so that the TF-IDF
// side of the NLP path has a vocabulary and neighbours of its own: the gate holds there too
func VerifHarness_C04_NLPNeighbours() {
	mk := func(cmd, desc string, kws []string, plat []string, pipe bool) Command {
		c := Command{Command: cmd, Description: desc, Keywords: kws, Platform: plat, Pipeline: pipe}
		vFill(&c)
		return c
	}
	db := &Database{Commands: []Command{
		mk("ls -la", "list files in a directory", []string{"list", "files", "directory"}, []string{"linux"}, false),
		mk("dir /a", "list files in a directory", []string{"list", "files", "directory"}, []string{"windows"}, false),
		mk("Get-ChildItem -Force", "list files and hidden files in a directory", []string{"list", "files"}, []string{"PowerShell"}, false),
		mk("ls -la | sort -k5 -n", "list files sorted by size", []string{"list", "files", "sort"}, []string{"linux"}, true),
		mk("systemctl restart nginx", "restart a service", []string{"service", "restart"}, []string{"linux"}, false),
		mk("brew services restart nginx", "restart a service", []string{"service", "restart"}, []string{"macos"}, false),
		mk("ping -c 4 host", "check that a host answers", []string{"network"}, []string{"linux", "macos"}, false),
	}}
	db.BuildUniversalIndex()
	db.buildTFIDFSearcher()
	q := []string{"list files", "restart service", "list hidden files directory", "sorted files",
		// queries that name an operating system or its shell: the platform in force is still the
		// host's (or the requested one), whatever the words of the query say
		"list files on windows", "list files in powershell", "restart service on mac", "restart a service macos", "windows directory"}[verifIntRange("query", 0, 8)]
	o := c04Options()
	o.UseNLP = true
	o.Limit = []int{3, 10}[verifIntRange("limit", 0, 1)]
	res := db.SearchUniversal(q, o)
	c04Check(db, res, o, "NLP path, TF-IDF neighbours")
	cdb := NewCachedDatabase(db)
	_ = cdb.SearchWithOptionsAndCache(q, o)
	c04Check(db, cdb.SearchWithOptionsAndCache(q, o), o, "NLP path, cached answer")
	verifReach("checked")
	if len(res) > 0 {
		verifReach("nonempty")
	}
}
