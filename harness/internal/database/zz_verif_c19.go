package database

import (
	"math"

	"github.com/Vedant9500/WTF/internal/constants"
	"github.com/Vedant9500/WTF/internal/embedding"
)

// ---- C19 (engine side): the semantic stage is optional, only raises scores, by a bounded factor ----

func c19Vec(name string, d int) []float32 {
	v := make([]float32, d)
	for i := range v {
		f := verifFloat32(name)
		verifAssume(f >= -100)
		verifAssume(f <= 100)
		v[i] = f
	}
	return v
}

func c19Stage(d int, nres int) {
	db := c01DB(3)
	idx := &embedding.Index{Dimension: d, WordVectors: map[string][]float32{"aa": c19Vec("word", d)}}
	for i := 0; i < 3; i++ {
		idx.CmdEmbeddings = append(idx.CmdEmbeddings, c19Vec("cmd", d))
	}
	db.embeddingIndex = idx
	res := make([]SearchResult, nres)
	for i := range res {
		s := verifFloat64("score")
		verifAssume(s >= 0)
		verifAssume(s <= 1e6)
		if i > 0 {
			verifAssume(res[i-1].Score >= s)
		}
		res[i] = SearchResult{Command: &db.Commands[i], Score: s}
	}
	before := append([]SearchResult(nil), res...)
	out := db.applySemanticBoost(res, "aa")
	verifAssert(len(out) == len(before), "C19: the semantic stage keeps the result list's length")
	for k := range out {
		if k > 0 {
			verifAssert(out[k-1].Score >= out[k].Score, "C19: the semantic stage keeps the result list ordered")
		}
		for _, b := range before {
			if b.Command == out[k].Command {
				verifAssert(out[k].Score >= b.Score, "C19: the semantic stage can only raise scores")
				verifAssert(out[k].Score <= b.Score*(1.0+constants.SemanticAlpha)*1.0000001, "C19: the semantic stage raises scores by a bounded factor")
			}
		}
	}
	verifReach("boosted")
}

func VerifHarness_C19_Stage1() { c19Stage(1, 2) }
func VerifHarness_C19_Stage2() { c19Stage(2, 2) }

// without embedding files the search behaves as if the feature did not exist
func VerifHarness_C19_Absent() {
	db := c01DB(3)
	verifAssert(!db.HasEmbeddings(), "C19: no embedding index unless files were loaded")
	verifAssert(db.EmbedQuery("aa") == nil && db.SemanticScores([]float32{1}) == nil, "C19: the semantic accessors are inert without an index")
	q := vWord("q", 2)
	o := SearchOptions{Limit: 3, AllPlatforms: true, UseNLP: verifBool("nlp")}
	a := db.SearchUniversal(q, o)
	// attach an index that has no vector for any query word: the stage must be the identity
	db.embeddingIndex = &embedding.Index{Dimension: 1, WordVectors: map[string][]float32{}, CmdEmbeddings: [][]float32{{1}, {1}, {1}}}
	b := db.SearchUniversal(q, o)
	verifAssert(len(a) == len(b), "C19: an index without vectors for the query changes nothing (count)")
	if len(a) == len(b) {
		for k := range a {
			verifAssert(a[k].Command == b[k].Command && c03SameFloat(a[k].Score, b[k].Score), "C19: an index without vectors for the query changes nothing")
		}
	}
	verifReach("boosted")
}

// special values in the embedding files (NaN, infinities, huge magnitudes): the stage must
// still only raise scores, by a bounded factor, and keep the list ordered
func VerifHarness_C19_StageSpecial() {
	db := c01DB(3)
	special := []float32{1, -1, 0, float32(math.NaN()), float32(math.Inf(1)), 3e38, 0.5}
	pick := func(name string) float32 { return special[verifIntRange(name, 0, len(special)-1)] }
	idx := &embedding.Index{Dimension: 1, WordVectors: map[string][]float32{"aa": {pick("word")}, "bb": {pick("word2")}}}
	// the table may be shorter than the database (commands added after it was generated)
	for i, n := 0, verifIntRange("tableEntries", 0, 3); i < n; i++ {
		idx.CmdEmbeddings = append(idx.CmdEmbeddings, []float32{pick("cmd")})
	}
	db.embeddingIndex = idx
	res := []SearchResult{{Command: &db.Commands[0], Score: 5}, {Command: &db.Commands[1], Score: 5}, {Command: &db.Commands[2], Score: 2}}
	before := append([]SearchResult(nil), res...)
	q := []string{"aa", "aa bb"}[verifIntRange("query", 0, 1)]
	out := db.applySemanticBoost(res, q)
	verifAssert(len(out) == len(before), "C19: the semantic stage keeps the result list's length")
	for k := range out {
		verifAssert(!math.IsNaN(out[k].Score), "C19: the semantic stage never produces a NaN score")
		if k > 0 {
			verifAssert(out[k-1].Score >= out[k].Score, "C19: the semantic stage keeps the result list ordered")
		}
		for _, b := range before {
			if b.Command == out[k].Command {
				verifAssert(out[k].Score >= b.Score, "C19: the semantic stage can only raise scores")
				verifAssert(out[k].Score <= b.Score*(1.0+constants.SemanticAlpha)*1.0000001, "C19: the semantic stage raises scores by a bounded factor")
			}
		}
	}
	verifReach("boosted")
}
