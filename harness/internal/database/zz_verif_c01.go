package database

import "math"

// ---- C01: bounded, ranked, duplicate-free list of real entries ----

func c01EffLimit(limit int) int {
	if limit <= 0 {
		return 10
	}
	return limit
}

// c01Shape asserts the result-list contract for res against db and the limit in force.
func c01Shape(db *Database, res []SearchResult, limit int, tag string) {
	verifAssert(len(res) <= c01EffLimit(limit), "C01: at most the requested number of results ("+tag+")")
	for k := range res {
		idx := -1
		for i := range db.Commands {
			if res[k].Command == &db.Commands[i] {
				idx = i
			}
		}
		verifAssert(idx >= 0, "C01: every result is an entry of the searched database ("+tag+")")
		for l := 0; l < k; l++ {
			verifAssert(res[l].Command != res[k].Command, "C01: no entry appears twice ("+tag+")")
		}
		s := res[k].Score
		verifAssert(!math.IsNaN(s), "C01: score is not NaN ("+tag+")")
		verifAssert(!math.IsInf(s, 0), "C01: score is finite ("+tag+")")
		verifAssert(s >= 0, "C01: score is non-negative ("+tag+")")
		if k > 0 {
			verifAssert(res[k-1].Score >= s, "C01: results are in non-increasing score order ("+tag+")")
		}
	}
}

// c01DB: tie-heavy concrete database (equal texts give equal scores) of n entries.
func c01DB(n int) *Database {
	vConcreteWords = true
	all := []Command{
		vCmd("aa bb", "cc aa", "dd", ""),
		vCmd("aa bb", "cc aa", "dd", ""),
		vCmd("bb", "aa cc cc", "", "ee"),
		vCmd("ff | gg", "aa", "", ""),
		vCmd("aa", "", "", ""),
	}
	all[3].Pipeline = true
	db := &Database{Commands: all[:n]}
	db.BuildUniversalIndex()
	db.buildTFIDFSearcher()
	return db
}

// lexical path: any limit (64-bit), symbolic pipeline boost, query = one or two symbolic words
func c01Lexical(n int, nlp bool) {
	db := c01DB(n)
	limit := verifInt("limit")
	pb := verifFloat64("pipelineBoost")
	verifAssume(pb >= 0)
	verifAssume(pb <= 1e6)
	q := vWord("q1", 2)
	if verifBool("twoWords") {
		q = q + " " + vWord("q2", 2)
	}
	opts := SearchOptions{Limit: limit, PipelineBoost: pb, AllPlatforms: true, UseNLP: nlp, PipelineOnly: verifBool("pipelineOnly")}
	if k := verifIntRange("contextBoost", 0, 4); k > 0 {
		// context boosts are an option like any other: also values no analyser would produce
		opts.ContextBoosts = map[string]float64{"aa": []float64{2, -3, math.NaN(), math.Inf(-1)}[k-1]}
	}
	res := db.SearchUniversal(q, opts)
	c01Shape(db, res, limit, "SearchUniversal")
	verifReach("checked")
	if len(res) > 1 {
		verifReach("several")
	}
}

func VerifHarness_C01_Lexical3() { c01Lexical(3, false) }
func VerifHarness_C01_Lexical5() { c01Lexical(5, false) }
func VerifHarness_C01_NLP3()     { c01Lexical(3, true) }
func VerifHarness_C01_NLP5()     { c01Lexical(5, true) }

// Search(query, limit) convenience entry point
func VerifHarness_C01_SearchEntry() {
	db := c01DB(4)
	limit := verifInt("limit")
	q := vWord("q1", 2)
	res := db.Search(q, limit)
	c01Shape(db, res, limit, "Search")
	verifReach("checked")
}

// fuzzy fallback: the query misses the index (contains a letter pair that no document has)
func c01Fuzzy(n int, maxLimit int) {
	db := c01DB(n)
	limit := verifInt("limit")
	verifAssume(limit <= maxLimit)
	thr := verifInt("threshold")
	// two symbolic letters; the fallback runs when the word is not in the index
	q := vWord("q", 2)
	if verifBool("stopWordQuery") {
		// nothing but stop words / one-letter tokens: no index term at all
		q = []string{"a b", "to a", "a"}[verifIntRange("sq", 0, 2)]
	}
	opts := SearchOptions{Limit: limit, UseFuzzy: true, FuzzyThreshold: thr, AllPlatforms: true}
	opts.PipelineBoost = []float64{0, 0.5, 1, 2}[verifIntRange("pipelineBoost", 0, 3)]
	res := db.SearchUniversal(q, opts)
	c01Shape(db, res, limit, "fuzzy fallback")
	verifReach("checked")
	if len(res) > 1 {
		verifReach("several")
	}
}

func VerifHarness_C01_Fuzzy3() { c01Fuzzy(4, 2) } // four entries: the pipeline command is among them
func VerifHarness_C01_Fuzzy5() { c01Fuzzy(5, 3) }

// legacy entry points still public on Database
func VerifHarness_C01_LegacyPipeline() {
	db := c01DB(5)
	limit := verifInt("limit")
	pb := verifFloat64("pipelineBoost")
	verifAssume(pb >= 0)
	verifAssume(pb <= 1e6)
	q := vWord("q1", 2)
	opts := SearchOptions{Limit: limit, PipelineBoost: pb, PipelineOnly: verifBool("pipelineOnly")}
	res := db.SearchWithPipelineOptions(q, opts)
	c01Shape(db, res, limit, "SearchWithPipelineOptions")
	verifReach("checked")
}

func VerifHarness_C01_LegacyOptions() {
	db := c01DB(5)
	limit := verifInt("limit")
	q := vWord("q1", 2)
	res := db.SearchWithOptions(q, SearchOptions{Limit: limit})
	c01Shape(db, res, limit, "SearchWithOptions")
	verifReach("checked")
}

// the cached-answer path: an answer cached before the database was replaced (possibly while
// the cache was switched off) is never returned for the new database
func VerifHarness_C01_CachedOffOn() { VerifHarness_C05_OffOn() }

// typo fallback on a long command text (raw matcher scores far below -100): scores stay in range
func VerifHarness_C01_FuzzyLong() {
	long := ""
	for i := 0; i < 13; i++ {
		long += "mmmmmmmmmm"
	}
	mk := func(cmd, desc string) Command {
		c := Command{Command: cmd, Description: desc}
		vFill(&c)
		return c
	}
	db := &Database{Commands: []Command{mk(long+"qx", "mmmm"), mk("nn", "oo"), mk("qqxx", long)}}
	db.BuildUniversalIndex()
	thr := []int{0, -1000, -30}[verifIntRange("threshold", 0, 2)]
	q := string([]byte{verifByte("c1"), verifByte("c2")})
	verifAssume(q[0] >= 'p')
	verifAssume(q[0] <= 'r')
	verifAssume(q[1] >= 'w')
	verifAssume(q[1] <= 'y')
	limit := verifIntRange("limit", 1, 3)
	res := db.SearchUniversal(q, SearchOptions{Limit: limit, UseFuzzy: true, FuzzyThreshold: thr, AllPlatforms: true})
	c01Shape(db, res, limit, "fuzzy fallback, long text")
	verifReach("checked")
	if len(res) > 0 {
		verifReach("several")
	}
}

// the cached path with different limits for one query: seven matching entries, so that the
// default limit (10), 5 and 3 all cut differently
func VerifHarness_C01_CachedLimits() {
	vConcreteWords = true
	var cmds []Command
	for i := 0; i < 12; i++ {
		cmds = append(cmds, vCmd("aa "+string([]byte{'b', byte('a' + i)}), "cc", "", ""))
	}
	db := &Database{Commands: cmds}
	db.BuildUniversalIndex()
	db.buildTFIDFSearcher()
	limits := []int{-3, 0, 3, 5, 10, 11}
	monitored := verifBool("monitored")
	var mdb *MonitoredDatabase
	var cdb *CachedDatabase
	if monitored {
		mdb = NewMonitoredDatabase(db)
		cdb = mdb.CachedDatabase
	} else {
		cdb = NewCachedDatabase(db)
	}
	for step := 0; step < 2; step++ {
		l := limits[verifIntRange("limit", 0, len(limits)-1)]
		var res []SearchResult
		if monitored {
			res = mdb.SearchWithOptionsAndMonitoring("aa", SearchOptions{Limit: l})
		} else {
			res = cdb.SearchWithOptionsAndCache("aa", SearchOptions{Limit: l})
		}
		c01Shape(cdb.Database, res, l, "cached answer, varying limit")
		if len(res) > 0 {
			verifReach("several")
		}
	}
	verifReach("checked")
}

// NLP path on queries that carry an intent (install / create / delete / remove ...), against
// commands that speak the same, the opposite or no intent vocabulary, some of them reached only
// through a tag or a keyword (weak lexical score): whatever the later stages add to or take from
// a score, the list contract holds
func VerifHarness_C01_NLPIntents() {
	mk := func(cmd, desc string, kws, tags []string) Command {
		c := Command{Command: cmd, Description: desc, Keywords: kws, Tags: tags}
		vFill(&c)
		return c
	}
	db := &Database{Commands: []Command{
		mk("apt install nginx", "install the web server", []string{"install"}, nil),
		mk("apt purge nginx", "remove the web server completely", []string{"uninstall"}, nil),
		mk("yarn remove pkg", "drop a dependency", []string{"dependency"}, []string{"nginx", "folder"}),
		mk("nginx -t", "check the configuration", nil, nil),
		mk("rm -rf build", "delete the (folder)", []string{"cleanup"}, nil),
		mk("mkdir -p build", "create a folder and its parents", []string{"folder"}, nil),
		mk("touch build/x", "make an empty file", nil, []string{"folder", "create"}),
		mk("rmdir build", "remove.", []string{"folder"}, nil),
	}}
	db.BuildUniversalIndex()
	db.buildTFIDFSearcher()
	q := []string{"install nginx", "how to install nginx", "create folder", "create a new folder", "delete folder", "remove nginx",
		"uninstall nginx", "make folder", "find folder", "show nginx"}[verifIntRange("query", 0, 9)]
	o := SearchOptions{Limit: []int{0, 1, 3, 20}[verifIntRange("limit", 0, 3)], AllPlatforms: true, UseNLP: true, UseFuzzy: verifBool("fuzzy")}
	res := db.SearchUniversal(q, o)
	c01Shape(db, res, o.Limit, "NLP path, intent queries")
	cdb := NewCachedDatabase(db)
	_ = cdb.SearchWithOptionsAndCache(q, o)
	c01Shape(db, cdb.SearchWithOptionsAndCache(q, o), o.Limit, "NLP path, intent queries, cached answer")
	verifReach("checked")
	if len(res) > 0 {
		verifReach("nonempty")
	}
}
