package database

// ---- C08 (merge): the searched database is exactly the main entries followed by the notebook entries ----

func c08Atom(name string) string {
	w := verifString(name, 2)
	for i := 0; i < len(w); i++ {
		verifAssume(w[i] >= 'a')
		verifAssume(w[i] <= 'c')
	}
	return w
}

func VerifHarness_C08_Merge() {
	root := verifFSRoot()
	mainPath, persPath := root+"/db/commands.yml", root+"/cfg/personal.yml"
	// command strings are symbolic over a tiny alphabet: a notebook entry may repeat a
	// main entry's command string, or another notebook entry's
	mainCmds := []Command{
		{Command: c08Atom("m1"), Description: "first main", Keywords: []string{"kk"}},
		{Command: "df -h", Description: "disk free", Keywords: []string{"disk"}},
	}
	persCmds := []Command{
		{Command: c08Atom("p1"), Description: "zorgblat quota", Keywords: []string{"mine"}},
		{Command: c08Atom("p2"), Description: "other note", Keywords: nil},
	}
	switch verifIntRange("p2kind", 0, 3) {
	case 3: // a here-document style command ends in a line break
		persCmds[1].Command = persCmds[1].Command + " <<EOF\nx\nEOF\n"
		persCmds[1].Description = "multi line\n"
	case 1:
		persCmds[1].Command = "" // `wtf save "" "note"` is a legal (if odd) notebook entry
	case 2:
		persCmds[1].Command = "   "
	}
	npers := verifIntRange("notebookEntries", 0, 2)
	persCmds = persCmds[:npers]
	verifFSPutDoc(mainPath, "yaml", mainCmds)
	if verifBool("hasNotebook") {
		verifFSPutDoc(persPath, "yaml", persCmds)
	} else {
		persCmds = nil
	}
	db, err := LoadDatabaseWithPersonal(mainPath, persPath)
	verifAssert(err == nil && db != nil, "C08: main plus notebook load")
	if db == nil {
		return
	}
	want := append(append([]Command(nil), mainCmds...), persCmds...)
	verifAssert(len(db.Commands) == len(want), "C08: the searched database is exactly the main entries followed by the notebook entries (count)")
	if len(db.Commands) == len(want) {
		for i := range want {
			verifAssert(db.Commands[i].Command == want[i].Command && db.Commands[i].Description == want[i].Description,
				"C08: the searched database is exactly the main entries followed by the notebook entries (order, content)")
		}
	}
	if len(persCmds) > 0 {
		// a saved command is found by the next search for its words
		res := db.SearchUniversal("zorgblat", SearchOptions{Limit: 5, AllPlatforms: true})
		found := false
		for _, r := range res {
			if r.Command.Description == "zorgblat quota" {
				found = true
			}
		}
		verifAssert(found, "C08: a saved command is found by the next search for its words")
		// ... through the other search entry points as well (pipeline search and recovery use them)
		for _, r := range [][]SearchResult{
			db.SearchWithOptions("zorgblat", SearchOptions{Limit: 5}),
			db.SearchWithPipelineOptions("zorgblat", SearchOptions{Limit: 5}),
		} {
			found = false
			for _, x := range r {
				if x.Command.Description == "zorgblat quota" {
					found = true
				}
			}
			verifAssert(found, "C08: a saved command is found by the next search for its words (legacy entry points)")
		}
		verifReach("searched")
	}
	verifReach("merged")
}
