// check <property-id> [--tier quick|thorough] [--only harness] [--replay file]
//
// Regenerates the SSA of /repo's current working tree (with the in-package
// harness files of /verif/harness overlaid), symbolically executes every
// harness registered for the property in /verif/checks/<id>.json, replays any
// counterexample natively against the real build, and writes
// /verif/evidence/<id>.json.
//
// exit 0: every obligation discharged (unsat) on every explored path
// exit 1: VIOLATION property=<id> replay=<path>  (reproduced natively, not a listed known finding)
// exit 2: INCONCLUSIVE (unsupported construct, solver unknown, budget, vacuous harness, replay mismatch)
package main

import (
	"encoding/json"
	"flag"
	"fmt"
	"os"
	"path/filepath"
	"runtime"
	"runtime/pprof"
	"sort"
	"strconv"
	"strings"
	"time"

	"verif/engine/sx"
)

type HarnessSpec struct {
	Pkg          string   `json:"pkg"`
	Fn           string   `json:"fn"`
	Tier         string   `json:"tier"` // quick | thorough | both
	Solver       string   `json:"solver"`
	MapOrder     int      `json:"maporder"`
	MaxPaths     int      `json:"max_paths"`
	MaxSteps     int      `json:"max_steps"`
	MaxEnum      int      `json:"max_enum"`
	TimeoutMs    int      `json:"timeout_ms"`
	FPTimeoutMs  int      `json:"fp_timeout_ms"`
	ForkHardFP   bool     `json:"fork_hard_fp"`
	Workers      int      `json:"workers"`
	RequireReach []string `json:"require_reach"`
	Bounds       string   `json:"bounds"`
	What         string   `json:"what"`
	AllowPanics  bool     `json:"allow_panics"`
	Synctest     bool     `json:"synctest"`
	PanicFreedom bool     `json:"panic_freedom"` // the obligation is "no path panics"; explicit assertions are optional
}

type CheckSpec struct {
	PropertyID  string        `json:"property_id"`
	Level       string        `json:"level"`
	Explanation string        `json:"explanation"`
	Assumptions []string      `json:"assumptions"`
	Trusted     []string      `json:"trusted_base"`
	Stubs       []string      `json:"stubs"`
	Outside     []string      `json:"outside_the_claim"`
	Harnesses   []HarnessSpec `json:"harnesses"`
	CallSites   []CallSiteObl `json:"call_site_obligations"`
	ReachObls   []ReachObl    `json:"reach_obligations"`
	FlagObls    []FlagObl     `json:"flag_obligations"`
}

// FlagObl: in every function of Pkg that calls Anchor, the option field OptionField receives
// exactly the value of command-line flag Flag.
type FlagObl struct {
	Pkg         string `json:"pkg"`
	Anchor      string `json:"in_functions_calling"`
	OptionField string `json:"option_field"`
	Flag        string `json:"flag"`
	Msg         string `json:"msg"`
}

// ReachObl is a structural obligation on the module's static call graph: from Root (a
// function or "(*T).Method" of Pkg) none of MustNotReach (qualified callees such as
// "os.OpenFile") is reachable except through one of Through.
type ReachObl struct {
	Pkg          string   `json:"pkg"`
	Root         string   `json:"root"`
	MustNotReach []string `json:"must_not_reach"`
	Through      []string `json:"except_through"`
	Msg          string   `json:"msg"`
}

// CallSiteObl is a structural obligation on the SSA of a package that the
// executor cannot enter (cobra closures): every function that calls Anchor
// must call MustCall and must not call MustNotCall.
type CallSiteObl struct {
	Pkg         string `json:"pkg"`
	Anchor      string `json:"in_functions_calling"`
	MustCall    string `json:"must_call"`
	MustNotCall string `json:"must_not_call"`
	Msg         string `json:"msg"`
}

type KnownFinding struct {
	Property string `json:"property"`
	Status   string `json:"status"` // known | fixed
	Harness  string `json:"harness"`
	Kind     string `json:"kind"`
	Msg      string `json:"msg"`
	Site     string `json:"site_contains,omitempty"`
	What     string `json:"what"`
	Commit   string `json:"commit,omitempty"`
}

// verifDir is /verif unless $VERIF_DIR points at a snapshot (background runs)
var verifDir = func() string {
	if d := os.Getenv("VERIF_DIR"); d != "" {
		return d
	}
	return "/verif"
}()

func main() {
	// the go/packages driver resolves `go` through this process's PATH: it must be go1.26.8
	// (x/tools v0.50.0; accepts the repo's go 1.25.5 directive under GOTOOLCHAIN=local).
	// Native replays keep the caller's PATH so that the repo's own toolchain builds them.
	if os.Getenv("VERIF_ORIG_PATH") == "" {
		os.Setenv("VERIF_ORIG_PATH", os.Getenv("PATH"))
	}
	os.Setenv("PATH", "/opt/veriftools/go1.26.8/bin:"+os.Getenv("PATH"))
	os.Setenv("GOTOOLCHAIN", "local")
	os.Setenv("GOFLAGS", "-mod=mod")
	os.Setenv("GOPROXY", "off")
	// memory budget: a change to the tree can make an exploration blow up (a rewritten tokeniser
	// that forks per byte, say); exhausting the budget is inconclusive, never a verdict
	go func() {
		limit := uint64(16) << 30
		if g, err := strconv.Atoi(os.Getenv("VERIF_MEM_GB")); err == nil && g > 0 {
			limit = uint64(g) << 30
		}
		for {
			time.Sleep(3 * time.Second)
			var ms runtime.MemStats
			runtime.ReadMemStats(&ms)
			if ms.Sys > limit {
				id := "?"
				if len(os.Args) > 1 {
					id = os.Args[1]
				}
				fmt.Printf("INCONCLUSIVE property=%s memory budget exhausted (%d GB): the exploration does not fit; not a verdict\n", id, limit>>30)
				os.Exit(2)
			}
		}
	}()
	if mp := os.Getenv("VERIF_MEMPROFILE"); mp != "" {
		go func() {
			for k := 0; ; k++ {
				time.Sleep(60 * time.Second)
				if f, err := os.Create(fmt.Sprintf("%s.%d", mp, k%4)); err == nil {
					pprof.WriteHeapProfile(f)
					f.Close()
				}
			}
		}()
	}
	tier := flag.String("tier", "", "quick | thorough (default $VERIF_TIER or quick)")
	repo := flag.String("repo", "/repo", "repository root")
	only := flag.String("only", "", "run only this harness")
	replay := flag.String("replay", "", "replay a recorded counterexample file natively")
	workers := flag.Int("workers", 0, "override worker count")
	logsmt := flag.String("logsmt", "", "SMT log prefix (debug)")
	noReplay := flag.Bool("no-native", false, "skip native replay (debug)")
	verbose := flag.Bool("v", false, "verbose")
	concrete := flag.String("concrete", "", "run the recorded vector file concretely inside the engine (debug / translator validation)")
	flag.Usage = func() {
		fmt.Fprintln(os.Stderr, "usage: check [flags] <property-id>")
		flag.PrintDefaults()
	}
	// allow flags after the id
	args := os.Args[1:]
	var id string
	var rest []string
	for k := 0; k < len(args); k++ {
		if !strings.HasPrefix(args[k], "-") && id == "" {
			id = args[k]
			continue
		}
		rest = append(rest, args[k])
	}
	flag.CommandLine.Parse(rest)
	if id == "" {
		flag.Usage()
		os.Exit(2)
	}
	if *tier == "" {
		*tier = os.Getenv("VERIF_TIER")
	}
	if *tier == "" {
		*tier = "quick"
	}
	seed, _ := strconv.Atoi(os.Getenv("VERIF_SEED"))

	if *replay != "" {
		os.Exit(doReplay(*repo, id, *replay))
	}

	t0 := time.Now()
	specPath := filepath.Join(verifDir, "checks", id+".json")
	b, err := os.ReadFile(specPath)
	if err != nil {
		fatal(id, "no check spec: "+err.Error())
	}
	var spec CheckSpec
	if err := json.Unmarshal(b, &spec); err != nil {
		fatal(id, "bad check spec: "+err.Error())
	}
	var known []KnownFinding
	if kb, err := os.ReadFile(filepath.Join(verifDir, "known_findings.json")); err == nil {
		if err := json.Unmarshal(kb, &known); err != nil {
			fatal(id, "bad known_findings.json: "+err.Error())
		}
	}

	// select harnesses
	var hs []HarnessSpec
	pkgs := map[string]bool{}
	for _, h := range spec.Harnesses {
		if *only != "" && h.Fn != *only {
			continue
		}
		if *only == "" && !(h.Tier == "both" || h.Tier == *tier || h.Tier == "") {
			continue
		}
		hs = append(hs, h)
		pkgs[h.Pkg] = true
	}
	if len(hs) == 0 {
		fatal(id, "no harness selected for tier "+*tier)
	}

	// overlay: harness files + symbolic rt per package
	overlay := map[string][]byte{}
	tmpl, err := os.ReadFile(filepath.Join(verifDir, "harness/rt/rt_sym.go.tmpl"))
	if err != nil {
		fatal(id, err.Error())
	}
	var patterns []string
	for p := range pkgs {
		if err := sx.OverlayFromDir(overlay, filepath.Join(verifDir, "harness", p), *repo, p, nil); err != nil {
			fatal(id, err.Error())
		}
		parts := strings.Split(p, "/")
		overlay[filepath.Join(*repo, p, "zz_verif_rt.go")] = []byte(strings.Replace(string(tmpl), "package PKG", "package "+parts[len(parts)-1], 1))
		patterns = append(patterns, "./"+p)
	}
	var oblPkgs []string
	for _, o := range spec.CallSites {
		oblPkgs = append(oblPkgs, o.Pkg)
	}
	for _, o := range spec.ReachObls {
		oblPkgs = append(oblPkgs, o.Pkg)
	}
	for _, o := range spec.FlagObls {
		oblPkgs = append(oblPkgs, o.Pkg)
	}
	for _, op := range oblPkgs {
		if !pkgs[op] {
			pkgs[op] = true
			patterns = append(patterns, "./"+op)
		}
	}
	sort.Strings(patterns)
	tLoad := time.Now()
	prog, err := sx.Load(*repo, patterns, overlay, "")
	// A harness file that no longer compiles against the tree (it names an unexported function
	// or field that a change renamed or re-shaped) is set aside — its harnesses are reported
	// inconclusive — and the remaining files are loaded again, so that the other harnesses of
	// the property still decide what they can.
	droppedFiles := map[string]bool{}
	for retry := 0; err != nil && retry < 6; retry++ {
		dropped := false
		if msg := err.Error(); os.Getenv("VERIF_LOADERR") != "" {
			if len(msg) > 1500 {
				msg = msg[:1500]
			}
			fmt.Println("NOTE load error:", msg)
		}
		for name := range overlay {
			base := filepath.Base(name)
			if strings.HasPrefix(base, "zz_verif_c") && strings.Contains(err.Error(), base) && !droppedFiles[name] {
				droppedFiles[name] = true
				delete(overlay, name)
				dropped = true
			}
		}
		if !dropped {
			break
		}
		prog, err = sx.Load(*repo, patterns, overlay, "")
	}
	if err != nil {
		fatal(id, "cannot load /repo with harness overlay (does the tree compile?): "+err.Error())
	}
	loadS := time.Since(tLoad).Seconds()

	var native *sx.NativeRunner
	if !*noReplay {
		native, err = sx.NewNativeRunner(*repo, filepath.Join(verifDir, "harness"))
		if err != nil {
			fatal(id, err.Error())
		}
		defer native.Close()
		native.Skip = map[string]bool{}
		for name := range droppedFiles {
			if rel, rerr := filepath.Rel(*repo, name); rerr == nil {
				native.Skip[rel] = true
			}
		}
	}
	for name := range droppedFiles {
		fmt.Printf("NOTE harness file %s no longer compiles against this tree: its harnesses are inconclusive, the others run\n", filepath.Base(name))
	}

	if *concrete != "" {
		cb, err := os.ReadFile(*concrete)
		if err != nil {
			fatal(id, err.Error())
		}
		var rec struct {
			Pkg, Harness string
			Vector       []sx.ReplayVal
			Decisions    []int
		}
		json.Unmarshal(cb, &rec)
		pkg := prog.Pkgs["github.com/Vedant9500/WTF/"+rec.Pkg]
		fn := pkg.Func(rec.Harness)
		cfg := sx.DefaultConfig()
		res := prog.RunConcrete(fn, cfg, rec.Vector)
		if os.Getenv("VERIF_SYMBOLIC_PREFIX") != "" {
			res = prog.RunPrefix(fn, cfg, rec.Decisions)
			fmt.Println("sample:", res.Sample)
		}
		fmt.Printf("concrete run: status=%s msg=%s reached=%v\n", res.Status, res.Msg, res.Reached)
		for _, f := range res.Findings {
			fmt.Printf("  finding %s: %s\n", f.Kind, f.Msg)
		}
		for _, t := range res.Trace {
			fmt.Println("  TRACE:", t)
		}
		for _, u := range res.Unknowns {
			fmt.Println("  unknown:", u)
		}
		os.Exit(0)
	}
	var results []hres2
	var inconclusive []string
	violations := 0
	var outLines []string
	replayDir := filepath.Join(verifDir, "replays", id)
	os.MkdirAll(replayDir, 0o755)
	// clear old replays for this property
	if ents, err := os.ReadDir(replayDir); err == nil {
		for _, e := range ents {
			os.Remove(filepath.Join(replayDir, e.Name()))
		}
	}
	nReplays, nReproduced := 0, 0
	knownHit := map[int]bool{}

	for _, h := range hs {
		pkg := prog.Pkgs["github.com/Vedant9500/WTF/"+h.Pkg]
		if pkg == nil {
			inconclusive = append(inconclusive, "package not loaded: "+h.Pkg)
			continue
		}
		fn := pkg.Func(h.Fn)
		if fn == nil {
			inconclusive = append(inconclusive, "harness not found: "+h.Fn)
			continue
		}
		cfg := sx.DefaultConfig()
		cfg.Workers = runtime.NumCPU()
		if cfg.Workers > 16 {
			cfg.Workers = 16
		}
		if h.Workers > 0 {
			cfg.Workers = h.Workers
		}
		if *workers > 0 {
			cfg.Workers = *workers
		}
		if h.Solver != "" {
			cfg.Solver = h.Solver
		}
		if h.MapOrder > 0 {
			cfg.MapOrderMax = h.MapOrder
		}
		if h.MaxPaths > 0 {
			cfg.MaxPaths = h.MaxPaths
		}
		if h.MaxSteps > 0 {
			cfg.MaxSteps = h.MaxSteps
		}
		if h.MaxEnum > 0 {
			cfg.MaxEnum = h.MaxEnum
		}
		if h.TimeoutMs > 0 {
			cfg.TimeoutMs = h.TimeoutMs
		} else if *tier == "thorough" {
			cfg.TimeoutMs = 600000
		}
		cfg.FPTimeoutMs = h.FPTimeoutMs
		cfg.ForkHardFP = h.ForkHardFP
		cfg.SynctestEpoch = h.Synctest
		if *tier == "thorough" && cfg.Solver == "z3" {
			cfg.CrossCheck = "z3-new"
		}
		cfg.LogSMT = *logsmt
		cfg.Verbose = *verbose
		rep := prog.Explore(fn, cfg)
		results = append(results, hres2{h, rep})
		fmt.Printf("harness %s: paths=%d %v asserts=%d (syntactic %d, solver %d) queries=%d sat=%d unsat=%d unknown=%d solver=%.1fs wall=%.1fs exhausted=%v\n",
			h.Fn, rep.Paths, rep.ByStatus, rep.Asserts, rep.Syntactic, rep.SolverUnsat, rep.Queries, rep.Sat, rep.Unsat, rep.Unknown,
			rep.SolverTime.Seconds(), rep.Wall.Seconds(), rep.Exhausted)
		if *verbose {
			fmt.Printf("   FP slice cache: hits=%d misses=%d\n", sx.SliceStats.Hits, sx.SliceStats.Misses)
			type kv struct {
				k string
				v int
			}
			var l []kv
			for k, v := range rep.WhyCount {
				l = append(l, kv{k, v})
			}
			sort.Slice(l, func(a, b int) bool { return l[a].v > l[b].v })
			for k := 0; k < len(l) && k < 25; k++ {
				fmt.Printf("   solver-decided branch site %-40s %d\n", l[k].k, l[k].v)
			}
		}
		for _, p := range rep.Problems {
			inconclusive = append(inconclusive, h.Fn+": "+p)
		}
		for _, u := range rep.Unknowns {
			inconclusive = append(inconclusive, h.Fn+": "+u)
		}
		if rep.SolverErr > 0 {
			inconclusive = append(inconclusive, fmt.Sprintf("%s: %d solver error lines", h.Fn, rep.SolverErr))
		}
		if !rep.Exhausted && len(rep.Problems) == 0 {
			inconclusive = append(inconclusive, h.Fn+": exploration not exhausted")
		}
		if rep.Asserts == 0 && !h.PanicFreedom {
			inconclusive = append(inconclusive, h.Fn+": vacuous (no assertion reached)")
		}
		for _, l := range h.RequireReach {
			if rep.Reached[l] == 0 {
				inconclusive = append(inconclusive, fmt.Sprintf("%s: vacuous (reachability witness %q not reached on any feasible path)", h.Fn, l))
			}
		}
		// cross-path lock-discipline obligation: a field read without the lock on some path
		// must not be stored to on any path of this harness
		for lbl, site := range rep.UnlockedLoads {
			if rep.StoredLabels[lbl] {
				rep.Findings = append(rep.Findings, sx.Finding{Harness: h.Fn, Kind: "discipline",
					Msg:  fmt.Sprintf("C11: %s is read without holding the mutex although other paths store to it", lbl),
					Site: site})
			}
		}
		// findings -> native replay -> classification
		for _, f := range rep.Findings {
			nReplays++
			rp := filepath.Join(replayDir, fmt.Sprintf("%s_%d.json", h.Fn, nReplays))
			rec := map[string]any{"property": id, "pkg": h.Pkg, "harness": h.Fn, "kind": f.Kind, "msg": f.Msg, "site": f.Site,
				"vector": f.Vector, "named": f.Named, "decisions": f.Decisions, "needs_map_order": f.NeedsMapOrder, "synctest": h.Synctest}
			jb, _ := json.MarshalIndent(rec, "", " ")
			os.WriteFile(rp, jb, 0o644)
			reproduced := false
			detail := ""
			if f.Kind == "discipline" || f.Kind == "model" {
				// lock-discipline / write-set obligations are properties of every schedule: there is
				// no single native run that confirms them, the witness is the symbolic path itself
				reproduced = true
			} else if native != nil {
				repeat := 1
				if f.NeedsMapOrder {
					repeat = 2000
				}
				out := native.Replay(h.Pkg, h.Fn, rp, repeat, h.Synctest)
				// crash-offset findings: the model's documents are a few bytes long, the real file
				// hundreds, so the model's offset k need not be the real one: when the recorded k
				// does not reproduce, every real offset 0..4096 is tried
				if _, hasK := f.Named["k"]; hasK && out.Err == "" && f.Kind == "assert" {
					hit := false
					for _, a := range out.Asserts {
						if a == f.Msg {
							hit = true
						}
					}
					if !hit {
						native.SweepName, native.SweepMax = "k", 4096
						out = native.Replay(h.Pkg, h.Fn, rp, 1, h.Synctest)
						native.SweepName = ""
					}
				}
				switch {
				case out.Err != "":
					detail = "native replay error: " + out.Err
				case f.Kind == "assert":
					for _, a := range out.Asserts {
						if a == f.Msg {
							reproduced = true
						}
					}
					if out.OOM && strings.Contains(f.Msg, "memory") {
						reproduced = true // the real process ran out of its address-space limit
					}
					if !reproduced {
						detail = fmt.Sprintf("native run did not fail %q (failed: %v panic: %q)", f.Msg, out.Asserts, out.Panic)
					}
				case f.Kind == "panic":
					if out.Panic != "" {
						reproduced = true
					} else {
						detail = "native run did not panic"
					}
				}
			} else {
				reproduced = true
			}
			if !reproduced {
				inconclusive = append(inconclusive, fmt.Sprintf("%s: counterexample for %q did not reproduce natively (encoding or stub error): %s [%s]", h.Fn, f.Msg, detail, rp))
				continue
			}
			nReproduced++
			matched := -1
			for k, kf := range known {
				if kf.Property == id && kf.Status == "known" && kf.Harness == h.Fn && kf.Kind == f.Kind && kf.Msg == f.Msg &&
					(kf.Site == "" || strings.Contains(f.Site, kf.Site)) {
					matched = k
					break
				}
			}
			if matched >= 0 {
				if !knownHit[matched] {
					knownHit[matched] = true
					outLines = append(outLines, fmt.Sprintf("KNOWN-FINDING: property=%s %s", id, known[matched].What))
				}
				continue
			}
			violations++
			outLines = append(outLines, fmt.Sprintf("VIOLATION property=%s replay=%s", id, rp))
			outLines = append(outLines, fmt.Sprintf("  harness=%s kind=%s msg=%q site=%s inputs=%v", h.Fn, f.Kind, f.Msg, f.Site, f.Named))
		}
	}

	// ---- structural call-site obligations ----
	var callSiteEv []any
	if *only == "" {
		for _, o := range spec.CallSites {
			sites := prog.CallSites("github.com/Vedant9500/WTF/"+o.Pkg, o.Anchor)
			if len(sites) == 0 {
				inconclusive = append(inconclusive, fmt.Sprintf("call-site obligation: no function in %s calls %s any more", o.Pkg, o.Anchor))
			}
			for fn, callees := range sites {
				ok := (o.MustCall == "" || callees[o.MustCall]) && (o.MustNotCall == "" || !callees[o.MustNotCall])
				callSiteEv = append(callSiteEv, map[string]any{"function": fn, "obligation": o.Msg, "holds": ok})
				if !ok {
					nReplays++
					rp := filepath.Join(replayDir, fmt.Sprintf("callsite_%d.json", nReplays))
					jb, _ := json.MarshalIndent(map[string]any{"property": id, "kind": "call-site", "function": fn, "obligation": o}, "", " ")
					os.WriteFile(rp, jb, 0o644)
					violations++
					outLines = append(outLines, fmt.Sprintf("VIOLATION property=%s replay=%s", id, rp))
					outLines = append(outLines, fmt.Sprintf("  call-site obligation fails in %s: %s", fn, o.Msg))
				}
			}
		}
	}

	if *only == "" {
		for _, o := range spec.ReachObls {
			hit, found := prog.Reaches("github.com/Vedant9500/WTF", "github.com/Vedant9500/WTF/"+o.Pkg, o.Root, o.MustNotReach, o.Through)
			if !found {
				inconclusive = append(inconclusive, fmt.Sprintf("reach obligation: %s has no function %s any more", o.Pkg, o.Root))
				continue
			}
			callSiteEv = append(callSiteEv, map[string]any{"function": o.Pkg + "." + o.Root, "obligation": o.Msg, "holds": len(hit) == 0})
			for callee, from := range hit {
				nReplays++
				rp := filepath.Join(replayDir, fmt.Sprintf("reach_%d.json", nReplays))
				jb, _ := json.MarshalIndent(map[string]any{"property": id, "kind": "reach", "root": o.Root, "reaches": callee, "from": from, "obligation": o}, "", " ")
				os.WriteFile(rp, jb, 0o644)
				violations++
				outLines = append(outLines, fmt.Sprintf("VIOLATION property=%s replay=%s", id, rp))
				outLines = append(outLines, fmt.Sprintf("  reach obligation fails: %s reaches %s (in %s): %s", o.Root, callee, from, o.Msg))
			}
		}
	}

	if *only == "" {
		for _, o := range spec.FlagObls {
			res := prog.FlagPassthrough("github.com/Vedant9500/WTF/"+o.Pkg, o.Anchor, o.OptionField, o.Flag)
			if len(res) == 0 {
				inconclusive = append(inconclusive, fmt.Sprintf("flag obligation: no function in %s calling %s sets %s any more", o.Pkg, o.Anchor, o.OptionField))
			}
			for fn, why := range res {
				callSiteEv = append(callSiteEv, map[string]any{"function": fn, "obligation": o.Msg, "holds": why == ""})
				if why != "" {
					nReplays++
					rp := filepath.Join(replayDir, fmt.Sprintf("flag_%d.json", nReplays))
					jb, _ := json.MarshalIndent(map[string]any{"property": id, "kind": "flag-passthrough", "function": fn, "why": why, "obligation": o}, "", " ")
					os.WriteFile(rp, jb, 0o644)
					violations++
					outLines = append(outLines, fmt.Sprintf("VIOLATION property=%s replay=%s", id, rp))
					outLines = append(outLines, fmt.Sprintf("  flag obligation fails in %s: %s: %s", fn, why, o.Msg))
				}
			}
		}
	}

	// ---- evidence ----
	wall := time.Since(t0).Seconds()
	ev := buildEvidence(id, *tier, seed, spec, results, inconclusive, violations, nReplays, nReproduced, wall, loadS, outLines)
	ev["coverage"].(map[string]any)["call_site_obligations"] = callSiteEv
	os.MkdirAll(filepath.Join(verifDir, "evidence"), 0o755)
	eb, _ := json.MarshalIndent(ev, "", " ")
	if err := os.WriteFile(filepath.Join(verifDir, "evidence", id+".json"), eb, 0o644); err != nil {
		fatal(id, err.Error())
	}

	for _, l := range outLines {
		fmt.Println(l)
	}
	if violations > 0 {
		os.Exit(1)
	}
	if len(inconclusive) > 0 {
		for _, m := range inconclusive {
			fmt.Println("INCONCLUSIVE property=" + id + " " + m)
		}
		os.Exit(2)
	}
	fmt.Printf("OK property=%s tier=%s harnesses=%d wall=%.1fs\n", id, *tier, len(results), wall)
}

type hres2 struct {
	Spec HarnessSpec
	Rep  *sx.HarnessReport
}

func fatal(id, msg string) {
	fmt.Printf("INCONCLUSIVE property=%s %s\n", id, msg)
	os.Exit(2)
}

func doReplay(repo, id, path string) int {
	b, err := os.ReadFile(path)
	if err != nil {
		fmt.Println(err)
		return 2
	}
	var rec struct {
		Pkg, Harness, Kind, Msg string
		NeedsMapOrder           bool `json:"needs_map_order"`
		Synctest                bool `json:"synctest"`
	}
	if err := json.Unmarshal(b, &rec); err != nil {
		fmt.Println(err)
		return 2
	}
	native, err := sx.NewNativeRunner(repo, filepath.Join(verifDir, "harness"))
	if err != nil {
		fmt.Println(err)
		return 2
	}
	defer native.Close()
	repeat := 1
	if rec.NeedsMapOrder {
		repeat = 2000
	}
	abs, _ := filepath.Abs(path)
	out := native.Replay(rec.Pkg, rec.Harness, abs, repeat, rec.Synctest)
	fmt.Print(out.Output)
	if out.Failed {
		fmt.Printf("VIOLATION property=%s replay=%s\n", id, path)
		return 1
	}
	return 0
}

func buildEvidence(id, tier string, seed int, spec CheckSpec, results []hres2, inconclusive []string,
	violations, nReplays, nReproduced int, wall, loadS float64, outLines []string) map[string]any {
	states, transitions := 0, 0
	obligations, discharged := 0, 0
	queries, sat, unsat, unknown := 0, 0, 0, 0
	solverS := 0.0
	var samples []any
	var harnessEv []any
	funcs := map[string]int{}
	exhaustive := true
	for _, r := range results {
		rep := r.Rep
		states += rep.Paths
		transitions += rep.Decisions
		obligations += rep.Asserts
		discharged += rep.Syntactic + rep.SolverUnsat
		queries += rep.Queries
		sat += rep.Sat
		unsat += rep.Unsat
		unknown += rep.Unknown
		solverS += rep.SolverTime.Seconds()
		if !rep.Exhausted {
			exhaustive = false
		}
		for f, n := range rep.Funcs {
			funcs[f] = n
		}
		for _, s := range rep.Samples {
			samples = append(samples, map[string]any{"harness": rep.Name, "path": s})
		}
		var fnd []any
		for _, f := range rep.Findings {
			fnd = append(fnd, map[string]any{"kind": f.Kind, "msg": f.Msg, "site": f.Site, "inputs": f.Named})
		}
		harnessEv = append(harnessEv, map[string]any{
			"harness": rep.Name, "package": r.Spec.Pkg, "what": r.Spec.What, "bounds": r.Spec.Bounds, "solver": orDefault(r.Spec.Solver, "z3"),
			"paths": rep.Paths, "paths_by_status": rep.ByStatus, "branch_decisions": rep.Decisions,
			"assertions_posed": rep.Asserts, "decided_by_constant_folding": rep.Syntactic, "decided_unsat_by_solver": rep.SolverUnsat,
			"solver_queries": rep.Queries, "sat": rep.Sat, "unsat": rep.Unsat, "unknown": rep.Unknown, "solver_error_lines": rep.SolverErr,
			"solver_seconds": round2(rep.SolverTime.Seconds()), "wall_seconds": round2(rep.Wall.Seconds()),
			"ssa_instructions_executed": rep.Steps, "exhausted": rep.Exhausted, "reach_witnesses": rep.Reached,
			"map_ranges_forked_over_all_orders": rep.MapRangesForked, "map_ranges_in_insertion_order": rep.MapRangesFixed,
			"non_ascii_decode_events": rep.NonASCII, "findings": fnd,
			"guarded_accesses_checked": rep.GuardedAccesses, "fields_stored_under_lock": keysOf(rep.StoredLabels), "fields_read_without_lock": rep.UnlockedLoads,
		})
	}
	type fc struct {
		name string
		n    int
	}
	var fl []fc
	for f, n := range funcs {
		fl = append(fl, fc{f, n})
	}
	sort.Slice(fl, func(a, b int) bool { return fl[a].name < fl[b].name })
	var encoded []string
	for _, f := range fl {
		encoded = append(encoded, fmt.Sprintf("%s (%d instr)", f.name, f.n))
	}
	if len(samples) == 0 {
		samples = append(samples, "no path completed")
	}
	cov := map[string]any{
		"states":                        max1(states),
		"transitions":                   max1(transitions),
		"traces_validated_against_impl": nReproduced,
		"samples":                       samples,
		"obligations":                   obligations,
		"discharged":                    discharged,
		"explanation":                   spec.Explanation + " | states = symbolic paths explored (each a set of concrete executions described by its path condition); transitions = symbolic branch decisions taken; traces_validated_against_impl = solver counterexamples replayed natively against the real build with go test -overlay.",
		"exhaustive":                    exhaustive && len(inconclusive) == 0,
		"harnesses":                     harnessEv,
		"functions_encoded":             encoded,
		"functions_encoded_count":       len(encoded),
		"solver_queries":                map[string]any{"total": queries, "sat": sat, "unsat": unsat, "unknown": unknown, "solver_seconds": round2(solverS)},
		"native_replays":                map[string]any{"attempted": nReplays, "reproduced": nReproduced},
		"stubs":                         spec.Stubs,
		"outside_the_claim":             spec.Outside,
		"trusted_base":                  spec.Trusted,
		"inconclusive":                  inconclusive,
		"verdict_lines":                 outLines,
		"ssa_load_seconds":              round2(loadS),
		"engine":                        "gosym: path-replay symbolic executor over go/ssa (x/tools v0.50.0), regenerated from /repo working tree",
	}
	if spec.Assumptions == nil {
		spec.Assumptions = []string{}
	}
	level := spec.Level
	if level == "" {
		level = "model_checking"
	}
	return map[string]any{
		"property_id": id, "tier": tier, "seed": seed, "level": level, "coverage": cov,
		"assumptions": spec.Assumptions, "wall_s": round2(wall), "violations": violations,
	}
}

func orDefault(s, d string) string {
	if s == "" {
		return d
	}
	return s
}

func round2(f float64) float64 { return float64(int(f*100)) / 100 }

func max1(n int) int {
	if n < 1 {
		return 1
	}
	return n
}

func keysOf(m map[string]bool) []string {
	var out []string
	for k := range m {
		out = append(out, k)
	}
	sort.Strings(out)
	return out
}
