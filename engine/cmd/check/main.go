package main

import (
	"flag"
	"fmt"
	"os"
	"strings"

	"verif/engine/sx"
)

func main() {
	repo := flag.String("repo", "/repo", "repository root")
	pkg := flag.String("pkg", "", "package dir relative to repo")
	fn := flag.String("fn", "", "harness function")
	workers := flag.Int("workers", 8, "workers")
	solver := flag.String("solver", "z3", "solver")
	logsmt := flag.String("logsmt", "", "smt log prefix")
	maporder := flag.Int("maporder", 1, "map order max")
	flag.Parse()
	overlay := map[string][]byte{}
	hdir := "/verif/harness/" + *pkg
	if err := sx.OverlayFromDir(overlay, hdir, *repo, *pkg, nil); err != nil {
		fmt.Println(err)
		os.Exit(2)
	}
	tmpl, _ := os.ReadFile("/verif/harness/rt/rt_sym.go.tmpl")
	parts := strings.Split(*pkg, "/")
	pkgName := parts[len(parts)-1]
	overlay[*repo+"/"+*pkg+"/zz_verif_rt.go"] = []byte(strings.Replace(string(tmpl), "package PKG", "package "+pkgName, 1))
	p, err := sx.Load(*repo, []string{"./" + *pkg}, overlay, "")
	if err != nil {
		fmt.Println(err)
		os.Exit(2)
	}
	var hp = p.Pkgs["github.com/Vedant9500/WTF/"+*pkg]
	f := hp.Func(*fn)
	if f == nil {
		fmt.Println("no such harness", *fn)
		os.Exit(2)
	}
	cfg := sx.DefaultConfig()
	cfg.Workers = *workers
	cfg.Solver = *solver
	cfg.LogSMT = *logsmt
	cfg.MapOrderMax = *maporder
	rep := p.Explore(f, cfg)
	fmt.Printf("harness %s: paths=%d status=%v decisions=%d asserts=%d (syntactic %d, solver-unsat %d) queries=%d sat=%d unsat=%d unknown=%d err=%d solver=%.2fs wall=%.2fs exhausted=%v\n",
		rep.Name, rep.Paths, rep.ByStatus, rep.Decisions, rep.Asserts, rep.Syntactic, rep.SolverUnsat, rep.Queries, rep.Sat, rep.Unsat, rep.Unknown, rep.SolverErr, rep.SolverTime.Seconds(), rep.Wall.Seconds(), rep.Exhausted)
	fmt.Println("reached:", rep.Reached)
	for _, f := range rep.Findings {
		fmt.Printf("FINDING %s: %s site=%s named=%v\n", f.Kind, f.Msg, f.Site, f.Named)
	}
	for _, u := range rep.Unknowns {
		fmt.Println("UNKNOWN:", u)
	}
	for _, u := range rep.Problems {
		fmt.Println("PROBLEM:", u)
	}
	for _, s := range rep.Samples {
		fmt.Println("SAMPLE:", s)
	}
	fmt.Println("funcs encoded:", len(rep.Funcs))
}
