package sx

import (
	"fmt"
	"go/token"
	"go/types"
	"os"
	"path/filepath"
	"strings"

	"golang.org/x/tools/go/packages"
	"golang.org/x/tools/go/ssa"
	"golang.org/x/tools/go/ssa/ssautil"
)

// Load type-checks repoDir's packages matching patterns with overlay files
// (virtual path -> content) and builds SSA for everything reachable.
func Load(repoDir string, patterns []string, overlay map[string][]byte, tags string) (*Program, error) {
	cfg := &packages.Config{
		Mode:    packages.LoadAllSyntax,
		Dir:     repoDir,
		Overlay: overlay,
		Env:     loaderEnv(),
	}
	if tags != "" {
		cfg.BuildFlags = []string{"-tags=" + tags}
	}
	pkgs, err := packages.Load(cfg, patterns...)
	if err != nil {
		return nil, err
	}
	var errs []string
	packages.Visit(pkgs, nil, func(p *packages.Package) {
		for _, e := range p.Errors {
			errs = append(errs, e.Error())
		}
	})
	if len(errs) > 0 {
		if len(errs) > 10 {
			errs = errs[:10]
		}
		return nil, fmt.Errorf("load errors:\n%s", strings.Join(errs, "\n"))
	}
	prog, _ := ssautil.AllPackages(pkgs, ssa.InstantiateGenerics|ssa.SanityCheckFunctions*0)
	prog.Build()
	p := &Program{Prog: prog, Sizes: types.SizesFor("gc", "amd64"), Pkgs: map[string]*ssa.Package{}}
	for _, sp := range prog.AllPackages() {
		p.Pkgs[sp.Pkg.Path()] = sp
	}
	return p, nil
}

// OverlayFromDir maps every file in dir to repoDir/relPkg/<name>.
func OverlayFromDir(overlay map[string][]byte, dir, repoDir, relPkg string, only func(name string) bool) error {
	ents, err := os.ReadDir(dir)
	if err != nil {
		return err
	}
	for _, e := range ents {
		if e.IsDir() || !strings.HasSuffix(e.Name(), ".go") {
			continue
		}
		if only != nil && !only(e.Name()) {
			continue
		}
		b, err := os.ReadFile(filepath.Join(dir, e.Name()))
		if err != nil {
			return err
		}
		overlay[filepath.Join(repoDir, relPkg, e.Name())] = b
	}
	return nil
}

// CallSites returns, for every function of package pkgPath (including
// anonymous functions) that statically calls a function whose name is
// anchor, the set of static callee names.
func (p *Program) CallSites(pkgPath, anchor string) map[string]map[string]bool {
	out := map[string]map[string]bool{}
	for fn := range ssautil.AllFunctions(p.Prog) {
		if fn.Pkg == nil || fn.Pkg.Pkg.Path() != pkgPath {
			// anonymous functions have Pkg set as well
			continue
		}
		callees := map[string]bool{}
		for _, b := range fn.Blocks {
			for _, ins := range b.Instrs {
				if c, ok := ins.(ssa.CallInstruction); ok {
					if sc := c.Common().StaticCallee(); sc != nil {
						callees[sc.Name()] = true
					}
				}
			}
		}
		if callees[anchor] {
			out[fn.String()] = callees
		}
	}
	return out
}

// Reaches reports, for the static call graph restricted to the module's own functions, which
// of the forbidden callees (qualified names such as "os.OpenFile") are reachable from root
// (a function or method name in pkgPath, e.g. "saveToPersonalDatabase" or "(*SearchHistory).Save")
// without passing through one of the `through` functions. Result: forbidden callee -> the
// module function that calls it. found=false when root does not exist.
func (p *Program) Reaches(modulePath, pkgPath, root string, forbidden, through []string) (map[string]string, bool) {
	forb := map[string]bool{}
	for _, f := range forbidden {
		forb[f] = true
	}
	thr := map[string]bool{}
	for _, f := range through {
		thr[f] = true
	}
	// local: "Name" for functions, "(*T).Name" / "(T).Name" for methods
	local := func(fn *ssa.Function) string {
		if recv := fn.Signature.Recv(); recv != nil {
			return "(" + types.TypeString(recv.Type(), func(*types.Package) string { return "" }) + ")." + fn.Name()
		}
		return fn.Name()
	}
	qual := func(fn *ssa.Function) string {
		if fn.Pkg == nil {
			return fn.String()
		}
		return fn.Pkg.Pkg.Name() + "." + local(fn)
	}
	var start *ssa.Function
	for fn := range ssautil.AllFunctions(p.Prog) {
		if fn.Pkg == nil || fn.Pkg.Pkg.Path() != pkgPath {
			continue
		}
		if local(fn) == root {
			start = fn
		}
	}
	if start == nil {
		return nil, false
	}
	out := map[string]string{}
	seen := map[*ssa.Function]bool{start: true}
	work := []*ssa.Function{start}
	for len(work) > 0 {
		fn := work[len(work)-1]
		work = work[:len(work)-1]
		visit := func(sc *ssa.Function) {
			if sc == nil {
				return
			}
			q := qual(sc)
			if sc.Pkg != nil && forb[sc.Pkg.Pkg.Name()+".*"] {
				// "<package>.*": any function of that package
				q = sc.Pkg.Pkg.Name() + ".*"
			}
			if forb[q] {
				if _, ok := out[q]; !ok {
					out[q] = fn.String()
				}
				return
			}
			if thr[q] || seen[sc] || sc.Pkg == nil || !strings.HasPrefix(sc.Pkg.Pkg.Path(), modulePath) {
				return
			}
			seen[sc] = true
			work = append(work, sc)
		}
		for _, an := range fn.AnonFuncs {
			visit(an)
		}
		for _, b := range fn.Blocks {
			for _, ins := range b.Instrs {
				switch x := ins.(type) {
				case *ssa.Go:
					if forb["go statement"] {
						if _, ok := out["go statement"]; !ok {
							out["go statement"] = fn.String()
						}
					}
					visit(x.Common().StaticCallee())
					continue
				case *ssa.MakeChan:
					if forb["make(chan)"] {
						if _, ok := out["make(chan)"]; !ok {
							out["make(chan)"] = fn.String()
						}
					}
				}
				if c, ok := ins.(ssa.CallInstruction); ok {
					visit(c.Common().StaticCallee())
				}
			}
		}
	}
	return out, true
}

// FlagPassthrough checks, in every function of pkgPath that calls anchor, that each value
// stored into a struct field named optionField is exactly what the flag getter returned for
// flag (read through local struct fields only: no call, no arithmetic, no re-slicing in
// between). It returns function -> "" (holds) or a description of the offending definition.
func (p *Program) FlagPassthrough(pkgPath, anchor, optionField, flag string) map[string]string {
	out := map[string]string{}
	for fn := range ssautil.AllFunctions(p.Prog) {
		if fn.Pkg == nil || fn.Pkg.Pkg.Path() != pkgPath {
			continue
		}
		calls := false
		for _, b := range fn.Blocks {
			for _, ins := range b.Instrs {
				if c, ok := ins.(ssa.CallInstruction); ok {
					if sc := c.Common().StaticCallee(); sc != nil && sc.Name() == anchor {
						calls = true
					}
				}
			}
		}
		if !calls {
			continue
		}
		fieldOf := func(fa *ssa.FieldAddr) string {
			// only fields of the engine's option struct count (other structs may have a field
			// of the same name)
			nt, ok := deref(fa.X.Type()).(*types.Named)
			if !ok || nt.Obj().Name() != "SearchOptions" {
				return ""
			}
			st, ok := nt.Underlying().(*types.Struct)
			if !ok {
				return ""
			}
			return st.Field(fa.Field).Name()
		}
		var trace func(v ssa.Value, depth int) string
		trace = func(v ssa.Value, depth int) string {
			if depth > 8 {
				return "definition chain too long"
			}
			switch x := v.(type) {
			case *ssa.Extract:
				if call, ok := x.Tuple.(*ssa.Call); ok {
					if sc := call.Common().StaticCallee(); sc != nil && strings.HasPrefix(sc.Name(), "Get") && len(call.Common().Args) >= 2 {
						if c, ok := call.Common().Args[1].(*ssa.Const); ok && c.Value != nil && strings.Trim(c.Value.ExactString(), "\"") == flag {
							return ""
						}
					}
					return "comes from a call to " + call.Common().Value.String()
				}
			case *ssa.UnOp:
				if fa, ok := x.X.(*ssa.FieldAddr); ok && x.Op == token.MUL {
					found := false
					for _, b := range fn.Blocks {
						for _, ins := range b.Instrs {
							if st, ok := ins.(*ssa.Store); ok {
								if fa2, ok := st.Addr.(*ssa.FieldAddr); ok && fa2.X == fa.X && fa2.Field == fa.Field {
									found = true
									if why := trace(st.Val, depth+1); why != "" {
										return why
									}
								}
							}
						}
					}
					if found {
						return ""
					}
					return "read from a field that is never assigned in this function"
				}
			case *ssa.Call:
				return "comes from a call to " + x.Common().Value.String()
			}
			return "is computed (" + v.String() + ")"
		}
		res, seen := "", false
		for _, b := range fn.Blocks {
			for _, ins := range b.Instrs {
				if st, ok := ins.(*ssa.Store); ok {
					if fa, ok := st.Addr.(*ssa.FieldAddr); ok && fieldOf(fa) == optionField {
						seen = true
						if why := trace(st.Val, 0); why != "" && res == "" {
							res = optionField + " " + why
						}
					}
				}
			}
		}
		if seen {
			out[fn.String()] = res
		}
	}
	return out
}

// loaderEnv: the `go list` driver must be go1.26.8 (x/tools v0.50.0 and the
// repo's go 1.25.5 directive both need it), whatever PATH / GOTOOLCHAIN the
// caller has.
func loaderEnv() []string {
	var env []string
	for _, e := range os.Environ() {
		if strings.HasPrefix(e, "PATH=") || strings.HasPrefix(e, "GOTOOLCHAIN=") || strings.HasPrefix(e, "GOFLAGS=") ||
			strings.HasPrefix(e, "GOPROXY=") || strings.HasPrefix(e, "CGO_ENABLED=") {
			continue
		}
		env = append(env, e)
	}
	return append(env, "PATH=/opt/veriftools/go1.26.8/bin:"+os.Getenv("PATH"), "GOTOOLCHAIN=local",
		"GOFLAGS=-mod=mod", "GOPROXY=off", "CGO_ENABLED=0")
}
