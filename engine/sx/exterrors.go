package sx

import (
	"go/types"

	"golang.org/x/tools/go/ssa"
)

func init() {
	externals["errors.Is"] = extErrorsIs
	externals["errors.As"] = extErrorsAs
	externals["errors.Unwrap"] = func(fr *frame, a []value) value {
		err := a[0].(iface)
		if err.t == nil {
			return iface{}
		}
		if m := methodOf(fr.i, err.t, "Unwrap"); m != nil && unwrapsToError(m) {
			return fr.i.call(fr, 0, m, []value{err.v})
		}
		return iface{}
	}
}

func methodOf(i *interpreter, t types.Type, name string) *ssa.Function {
	ms := i.prog.MethodSets.MethodSet(t)
	for k := 0; k < ms.Len(); k++ {
		sel := ms.At(k)
		if sel.Obj().Name() == name {
			return i.prog.MethodValue(sel)
		}
	}
	return nil
}

func unwrapsToError(m *ssa.Function) bool {
	res := m.Signature.Results()
	if res.Len() != 1 {
		return false
	}
	_, isSlice := res.At(0).Type().Underlying().(*types.Slice)
	return !isSlice
}

func (i *interpreter) errorsIs(fr *frame, err, target iface) bool {
	if err.t == nil || target.t == nil {
		return err.t == nil && target.t == nil
	}
	comparable := types.Comparable(target.t)
	for {
		if comparable && sameType(err.t, target.t) {
			if i.truth(i.val(i.eqTerm(err.t, err.v, target.v), types.Bool), "errors.Is ==") {
				return true
			}
		}
		if m := methodOf(i, err.t, "Is"); m != nil && m.Signature.Params().Len() == 1 {
			if i.truth(i.call(fr, 0, m, []value{err.v, target}), "errors.Is method") {
				return true
			}
		}
		m := methodOf(i, err.t, "Unwrap")
		if m == nil {
			return false
		}
		if unwrapsToError(m) {
			next := i.call(fr, 0, m, []value{err.v}).(iface)
			if next.t == nil {
				return false
			}
			err = next
			continue
		}
		for _, e := range i.call(fr, 0, m, []value{err.v}).([]value) {
			if i.errorsIs(fr, e.(iface), target) {
				return true
			}
		}
		return false
	}
}

func extErrorsIs(fr *frame, a []value) value {
	return fr.i.errorsIs(fr, a[0].(iface), a[1].(iface))
}

func extErrorsAs(fr *frame, a []value) value {
	i := fr.i
	err := a[0].(iface)
	target := a[1].(iface)
	if err.t == nil {
		return false
	}
	if target.t == nil {
		panic(targetPanic{iface{i.runtimeErrorString, "errors: target cannot be nil"}})
	}
	pt, ok := target.t.Underlying().(*types.Pointer)
	if !ok {
		panic(targetPanic{iface{i.runtimeErrorString, "errors: target must be a non-nil pointer"}})
	}
	T := pt.Elem()
	cell := target.v.(*value)
	for {
		if it, isI := T.Underlying().(*types.Interface); isI {
			if types.Implements(err.t, it) {
				*cell = err
				return true
			}
		} else if types.Identical(err.t, T) {
			*cell = err.v
			return true
		}
		if m := methodOf(i, err.t, "As"); m != nil && m.Signature.Params().Len() == 1 {
			if i.truth(i.call(fr, 0, m, []value{err.v, target}), "errors.As method") {
				return true
			}
		}
		m := methodOf(i, err.t, "Unwrap")
		if m == nil {
			return false
		}
		if unwrapsToError(m) {
			next := i.call(fr, 0, m, []value{err.v}).(iface)
			if next.t == nil {
				return false
			}
			err = next
			continue
		}
		for _, e := range i.call(fr, 0, m, []value{err.v}).([]value) {
			if ei := e.(iface); ei.t != nil {
				if extErrorsAs(fr, []value{ei, target}).(bool) {
					return true
				}
			}
		}
		return false
	}
}
