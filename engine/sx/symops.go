package sx

import (
	"fmt"
	"go/token"
	"go/types"
	"math"
	"unicode/utf8"
)

// kindInfo returns sort, signedness for a Go basic kind.
func kindInfo(k types.BasicKind) (Sort, bool) {
	switch k {
	case types.Bool, types.UntypedBool:
		return SBool, false
	case types.Int, types.Int64, types.UntypedInt:
		return SBV64, true
	case types.Int8:
		return SBV8, true
	case types.Int16:
		return SBV16, true
	case types.Int32, types.UntypedRune:
		return SBV32, true
	case types.Uint, types.Uint64, types.Uintptr:
		return SBV64, false
	case types.Uint8:
		return SBV8, false
	case types.Uint16:
		return SBV16, false
	case types.Uint32:
		return SBV32, false
	case types.Float32:
		return SF32, true
	case types.Float64, types.UntypedFloat:
		return SF64, true
	}
	panic(fmt.Sprintf("kindInfo: unsupported kind %v", k))
}

func kindOfValue(v value) types.BasicKind {
	switch v := v.(type) {
	case bool:
		return types.Bool
	case int:
		return types.Int
	case int8:
		return types.Int8
	case int16:
		return types.Int16
	case int32:
		return types.Int32
	case int64:
		return types.Int64
	case uint:
		return types.Uint
	case uint8:
		return types.Uint8
	case uint16:
		return types.Uint16
	case uint32:
		return types.Uint32
	case uint64:
		return types.Uint64
	case uintptr:
		return types.Uintptr
	case float32:
		return types.Float32
	case float64:
		return types.Float64
	case *Sym:
		return v.K
	}
	panic(fmt.Sprintf("kindOfValue: %T", v))
}

// term converts a scalar value to a term.
func (i *interpreter) term(v value) *Term {
	s := i.st
	switch v := v.(type) {
	case *Sym:
		return v.T
	case bool:
		return s.Bool(v)
	case int:
		return s.BV(64, uint64(v))
	case int8:
		return s.BV(8, uint64(v))
	case int16:
		return s.BV(16, uint64(v))
	case int32:
		return s.BV(32, uint64(v))
	case int64:
		return s.BV(64, uint64(v))
	case uint:
		return s.BV(64, uint64(v))
	case uint8:
		return s.BV(8, uint64(v))
	case uint16:
		return s.BV(16, uint64(v))
	case uint32:
		return s.BV(32, uint64(v))
	case uint64:
		return s.BV(64, v)
	case uintptr:
		return s.BV(64, uint64(v))
	case float32:
		return s.F32(v)
	case float64:
		return s.F64(v)
	}
	panic(fmt.Sprintf("term: cannot convert %T", v))
}

// val converts a term back to a value of kind k (concrete when constant).
func (i *interpreter) val(t *Term, k types.BasicKind) value {
	if !t.IsConst() {
		if t.Sort == SBool && i.known != nil {
			if v, ok := i.evalRanges(t); ok {
				return v
			}
		}
		return &Sym{T: t, K: k}
	}
	return constToValue(t, k)
}

func constToValue(t *Term, k types.BasicKind) value {
	c := t.C
	switch k {
	case types.Bool, types.UntypedBool:
		return c == 1
	case types.Int, types.UntypedInt:
		return int(int64(c))
	case types.Int8:
		return int8(c)
	case types.Int16:
		return int16(c)
	case types.Int32, types.UntypedRune:
		return int32(c)
	case types.Int64:
		return int64(c)
	case types.Uint:
		return uint(c)
	case types.Uint8:
		return uint8(c)
	case types.Uint16:
		return uint16(c)
	case types.Uint32:
		return uint32(c)
	case types.Uint64:
		return c
	case types.Uintptr:
		return uintptr(c)
	case types.Float32:
		return math.Float32frombits(uint32(c))
	case types.Float64, types.UntypedFloat:
		return math.Float64frombits(c)
	}
	panic(fmt.Sprintf("constToValue kind %v", k))
}

func basicKindOf(t types.Type) types.BasicKind {
	b, ok := t.Underlying().(*types.Basic)
	if !ok {
		panic(fmt.Sprintf("basicKindOf: %v", t))
	}
	k := b.Kind()
	switch k {
	case types.UntypedBool:
		return types.Bool
	case types.UntypedInt:
		return types.Int
	case types.UntypedRune:
		return types.Int32
	case types.UntypedFloat:
		return types.Float64
	}
	return k
}

// symBinop handles a binary operator where at least one operand is *Sym.
func (i *interpreter) symBinop(op token.Token, x, y value) value {
	s := i.st
	kx := kindOfValue(x)
	tx := i.term(x)
	// shifts: operands have different kinds
	if op == token.SHL || op == token.SHR {
		sortx, signedx := kindInfo(kx)
		ky := kindOfValue(y)
		_, signedy := kindInfo(ky)
		ty := i.term(y)
		w := sortx.Width()
		if signedy {
			// negative shift count panics
			neg := s.SLt(ty, s.BV(ty.Sort.Width(), 0))
			if i.decide(neg, "shift<0") {
				panic(runtimeErr("negative shift amount"))
			}
		}
		// clamp count into operand width
		var cnt *Term
		yw := ty.Sort.Width()
		if yw > w {
			big := s.ULe(s.BV(yw, uint64(w)), ty)
			cnt = s.Ite(big, s.BV(w, uint64(w)), s.Resize(ty, w, false))
		} else {
			cnt = s.Resize(ty, w, false)
		}
		var r *Term
		if op == token.SHL {
			r = s.Shl(tx, cnt)
		} else if signedx {
			r = s.AShr(tx, cnt)
		} else {
			r = s.LShr(tx, cnt)
		}
		return i.val(r, kx)
	}
	ty := i.term(y)
	sort, signed := kindInfo(kx)
	if tx.Sort != ty.Sort {
		panic(fmt.Sprintf("symBinop %v: sort mismatch %T(%v) %T(%v)", op, x, tx.Sort, y, ty.Sort))
	}
	b := func(t *Term) value { return i.val(t, types.Bool) }
	if sort == SBool {
		switch op {
		case token.EQL:
			return b(s.Eq(tx, ty))
		case token.NEQ:
			return b(s.Not(s.Eq(tx, ty)))
		case token.AND, token.LAND:
			return b(s.And(tx, ty))
		case token.OR, token.LOR:
			return b(s.Or(tx, ty))
		}
		panic(fmt.Sprintf("symBinop bool op %v", op))
	}
	if sort.IsFP() {
		switch op {
		case token.ADD:
			return i.val(s.FAdd(tx, ty), kx)
		case token.SUB:
			return i.val(s.FSub(tx, ty), kx)
		case token.MUL:
			return i.val(s.FMul(tx, ty), kx)
		case token.QUO:
			return i.val(s.FDiv(tx, ty), kx)
		case token.EQL:
			return b(s.FEq(tx, ty))
		case token.NEQ:
			return b(s.Not(s.FEq(tx, ty)))
		case token.LSS:
			return b(s.FLt(tx, ty))
		case token.LEQ:
			return b(s.FLe(tx, ty))
		case token.GTR:
			return b(s.FLt(ty, tx))
		case token.GEQ:
			return b(s.FLe(ty, tx))
		}
		panic(fmt.Sprintf("symBinop float op %v", op))
	}
	switch op {
	case token.ADD:
		return i.val(s.Add(tx, ty), kx)
	case token.SUB:
		return i.val(s.Sub(tx, ty), kx)
	case token.MUL:
		return i.val(s.Mul(tx, ty), kx)
	case token.QUO, token.REM:
		zero := s.Eq(ty, s.BV(sort.Width(), 0))
		if i.decide(zero, "div0") {
			panic(runtimeErr("integer divide by zero"))
		}
		var r *Term
		switch {
		case op == token.QUO && signed:
			r = s.SDiv(tx, ty)
		case op == token.QUO:
			r = s.UDiv(tx, ty)
		case signed:
			r = s.SRem(tx, ty)
		default:
			r = s.URem(tx, ty)
		}
		return i.val(r, kx)
	case token.AND:
		return i.val(s.BAnd(tx, ty), kx)
	case token.OR:
		return i.val(s.BOr(tx, ty), kx)
	case token.XOR:
		return i.val(s.BXor(tx, ty), kx)
	case token.AND_NOT:
		return i.val(s.BAnd(tx, s.BNot(ty)), kx)
	case token.EQL:
		return b(s.Eq(tx, ty))
	case token.NEQ:
		return b(s.Not(s.Eq(tx, ty)))
	case token.LSS:
		if signed {
			return b(s.SLt(tx, ty))
		}
		return b(s.ULt(tx, ty))
	case token.LEQ:
		if signed {
			return b(s.SLe(tx, ty))
		}
		return b(s.ULe(tx, ty))
	case token.GTR:
		if signed {
			return b(s.SLt(ty, tx))
		}
		return b(s.ULt(ty, tx))
	case token.GEQ:
		if signed {
			return b(s.SLe(ty, tx))
		}
		return b(s.ULe(ty, tx))
	}
	panic(fmt.Sprintf("symBinop: op %v", op))
}

func (i *interpreter) symUnop(op token.Token, x *Sym) value {
	s := i.st
	sort, _ := kindInfo(x.K)
	switch op {
	case token.SUB:
		if sort.IsFP() {
			return i.val(s.FNeg(x.T), x.K)
		}
		return i.val(s.Neg(x.T), x.K)
	case token.NOT:
		return i.val(s.Not(x.T), x.K)
	case token.XOR:
		return i.val(s.BNot(x.T), x.K)
	}
	panic(fmt.Sprintf("symUnop %v", op))
}

// symConv converts symbolic scalar x to basic kind dst.
func (i *interpreter) symConv(x *Sym, dst types.BasicKind) value {
	s := i.st
	ssort, ssigned := kindInfo(x.K)
	dsort, dsigned := kindInfo(dst)
	switch {
	case ssort == SBool && dsort == SBool:
		return &Sym{x.T, dst}
	case ssort.IsBV() && dsort.IsBV():
		return i.val(s.Resize(x.T, dsort.Width(), ssigned), dst)
	case ssort.IsBV() && dsort.IsFP():
		return i.val(s.FFromInt(i.reduce(x.T), ssigned, dsort), dst)
	case ssort.IsFP() && dsort.IsBV():
		return i.val(s.FToInt(x.T, dsigned, dsort.Width()), dst)
	case ssort.IsFP() && dsort.IsFP():
		return i.val(s.FToF(x.T, dsort), dst)
	}
	panic(fmt.Sprintf("symConv %v -> %v", x.K, dst))
}

// ---------------------------------------------------------------------
// Equality as a term.

// eqTerm returns the Bool term for Go's x == y at static type t.
func (i *interpreter) eqTerm(t types.Type, x, y value) *Term {
	s := i.st
	switch xv := x.(type) {
	case bool, int, int8, int16, int32, int64, uint, uint8, uint16, uint32, uint64, uintptr, float32, float64, *Sym:
		tx, ty := i.term(x), i.term(y)
		if tx.Sort.IsFP() {
			return s.FEq(tx, ty)
		}
		return s.Eq(tx, ty)
	case complex64:
		return s.Bool(xv == y.(complex64))
	case complex128:
		return s.Bool(xv == y.(complex128))
	case string:
		if ys, ok := y.(string); ok {
			return s.Bool(xv == ys)
		}
		return i.strEq(x, y)
	case symstr:
		return i.strEq(x, y)
	case *value:
		return s.Bool(xv == y.(*value))
	case chan value:
		return s.Bool(xv == y.(chan value))
	case structure:
		yv := y.(structure)
		tStruct := t.Underlying().(*types.Struct)
		r := s.True
		for k, n := 0, tStruct.NumFields(); k < n; k++ {
			f := tStruct.Field(k)
			if f.Name() == "_" {
				continue
			}
			r = s.And(r, i.eqTerm(f.Type(), xv[k], yv[k]))
			if r == s.False {
				return r
			}
		}
		return r
	case array:
		yv := y.(array)
		tElt := t.Underlying().(*types.Array).Elem()
		r := s.True
		for k := range xv {
			r = s.And(r, i.eqTerm(tElt, xv[k], yv[k]))
			if r == s.False {
				return r
			}
		}
		return r
	case iface:
		yv := y.(iface)
		if !sameType(xv.t, yv.t) {
			return s.False
		}
		if xv.t == nil {
			return s.True
		}
		return i.eqTerm(xv.t, xv.v, yv.v)
	case unsafePtr:
		return s.Bool(xv == y.(unsafePtr))
	}
	panic(fmt.Sprintf("comparing uncomparable type %s (%T)", t, x))
}

func (i *interpreter) strEq(x, y value) *Term {
	s := i.st
	if strLen(x) != strLen(y) {
		return s.False
	}
	xb, yb := strBytes(x), strBytes(y)
	r := s.True
	for k := range xb {
		r = s.And(r, i.simp(s.Eq(i.term(xb[k]), i.term(yb[k]))))
		if r == s.False {
			return r
		}
	}
	return r
}

// strLess returns the term for x < y (lexicographic byte order).
func (i *interpreter) strLess(x, y value) *Term {
	s := i.st
	xb, yb := strBytes(x), strBytes(y)
	n := len(xb)
	if len(yb) < n {
		n = len(yb)
	}
	// result for tail: all first n bytes equal => len(x) < len(y)
	r := s.Bool(len(xb) < len(yb))
	for k := n - 1; k >= 0; k-- {
		a, b := i.term(xb[k]), i.term(yb[k])
		r = s.Ite(s.ULt(a, b), s.True, s.Ite(s.ULt(b, a), s.False, r))
	}
	return r
}

// ---------------------------------------------------------------------
// Concretisation helpers.

// truth resolves a bool value, forking if symbolic.
func (i *interpreter) truth(v value, why string) bool {
	switch v := v.(type) {
	case bool:
		return v
	case *Sym:
		return i.decide(v.T, why)
	}
	panic(fmt.Sprintf("truth: %T", v))
}

// concInt returns a concrete int64 for integer v. A symbolic v is enumerated
// over [lo,hi] (inclusive) by a chain of binary decisions; values outside are
// the caller's responsibility (must have been excluded by obligations).
// singleton returns the concrete value of a symbolic integer whose interval
// facts pin it to one value.
func (i *interpreter) singleton(v value) value {
	sv, ok := v.(*Sym)
	if !ok || !sv.T.Sort.IsBV() {
		return v
	}
	if r := i.rangeOf(sv.T); r.lo == r.hi {
		return constToValue(i.st.BV(sv.T.Sort.Width(), r.lo), sv.K)
	}
	return v
}

func (i *interpreter) concInt(v value, lo, hi int64, why string) int64 {
	v = i.singleton(v)
	sv, ok := v.(*Sym)
	if !ok {
		return asInt64(v)
	}
	if hi-lo > int64(i.cfg.MaxEnum) {
		i.abort(abortUnsupported, fmt.Sprintf("symbolic integer enumerated over a range of %d values (%s)", hi-lo+1, why))
	}
	w := sv.T.Sort.Width()
	for k := lo; k < hi; k++ {
		if i.decide(i.st.Eq(sv.T, i.st.BV(w, uint64(k))), why) {
			return k
		}
	}
	// k == hi is implied if caller excluded everything else; assert it
	i.assume(i.st.Eq(sv.T, i.st.BV(w, uint64(hi))))
	return hi
}

// boundsCheck forks a panic path when idx may be outside [0,n).
func (i *interpreter) boundsCheck(idx value, n int, what string) {
	sv, ok := idx.(*Sym)
	if !ok {
		return // Go's native indexing will panic for concrete values
	}
	s := i.st
	w := sv.T.Sort.Width()
	_, signed := kindInfo(sv.K)
	var inb *Term
	if signed {
		if w < 64 && uint64(n) >= uint64(1)<<(w-1) {
			inb = s.SLe(s.BV(w, 0), sv.T)
		} else {
			inb = s.And(s.SLe(s.BV(w, 0), sv.T), s.SLt(sv.T, s.BV(w, uint64(n))))
		}
	} else {
		if w < 64 && uint64(n) >= uint64(1)<<w {
			return
		}
		inb = s.ULt(sv.T, s.BV(w, uint64(n)))
	}
	if !i.decide(inb, what) {
		panic(runtimeErr(fmt.Sprintf("index out of range [symbolic] with length %d (%s)", n, what)))
	}
}

// ---------------------------------------------------------------------
// UTF-8 over possibly symbolic bytes.

func (i *interpreter) byteIn(b value, lo, hi uint8, why string) bool {
	if c, ok := b.(uint8); ok {
		return lo <= c && c <= hi
	}
	t := i.term(b)
	s := i.st
	return i.decide(s.And(s.ULe(s.BV(8, uint64(lo)), t), s.ULe(t, s.BV(8, uint64(hi)))), why)
}

// decodeRune decodes the first rune of b (len(b) > 0) with utf8.DecodeRune semantics.
func (i *interpreter) decodeRune(b []value) (value, int) {
	allc := true
	lim := len(b)
	if lim > 4 {
		lim = 4
	}
	for k := 0; k < lim; k++ {
		if _, ok := b[k].(uint8); !ok {
			allc = false
			break
		}
		// a concrete ASCII first byte needs nothing more
		if k == 0 && b[0].(uint8) < 0x80 {
			break
		}
	}
	if allc {
		bs := make([]byte, 0, 4)
		for k := 0; k < lim; k++ {
			c, ok := b[k].(uint8)
			if !ok {
				break
			}
			bs = append(bs, c)
		}
		r, n := utf8.DecodeRune(bs)
		return r, n
	}
	s := i.st
	rerr := value(int32(utf8.RuneError))
	b0 := b[0]
	if i.byteIn(b0, 0x00, 0x7f, "utf8:ascii") {
		return i.val(s.Resize(i.term(b0), 32, false), types.Int32), 1
	}
	i.nonASCII++
	if i.byteIn(b0, 0x80, 0xc1, "utf8:badlead") {
		return rerr, 1
	}
	z32 := func(v value) *Term { return s.Resize(i.term(v), 32, false) }
	c32 := func(v uint64) *Term { return s.BV(32, v) }
	if i.byteIn(b0, 0xc2, 0xdf, "utf8:2") {
		if len(b) < 2 || !i.byteIn(b[1], 0x80, 0xbf, "utf8:c1") {
			return rerr, 1
		}
		r := s.BOr(s.Shl(s.BAnd(z32(b0), c32(0x1f)), c32(6)), s.BAnd(z32(b[1]), c32(0x3f)))
		return i.val(r, types.Int32), 2
	}
	if i.byteIn(b0, 0xe0, 0xef, "utf8:3") {
		lo, hi := uint8(0x80), uint8(0xbf)
		if i.byteIn(b0, 0xe0, 0xe0, "utf8:e0") {
			lo = 0xa0
		} else if i.byteIn(b0, 0xed, 0xed, "utf8:ed") {
			hi = 0x9f
		}
		if len(b) < 3 || !i.byteIn(b[1], lo, hi, "utf8:c1") || !i.byteIn(b[2], 0x80, 0xbf, "utf8:c2") {
			return rerr, 1
		}
		r := s.BOr(s.BOr(s.Shl(s.BAnd(z32(b0), c32(0x0f)), c32(12)),
			s.Shl(s.BAnd(z32(b[1]), c32(0x3f)), c32(6))), s.BAnd(z32(b[2]), c32(0x3f)))
		return i.val(r, types.Int32), 3
	}
	if i.byteIn(b0, 0xf0, 0xf4, "utf8:4") {
		lo, hi := uint8(0x80), uint8(0xbf)
		if i.byteIn(b0, 0xf0, 0xf0, "utf8:f0") {
			lo = 0x90
		} else if i.byteIn(b0, 0xf4, 0xf4, "utf8:f4") {
			hi = 0x8f
		}
		if len(b) < 4 || !i.byteIn(b[1], lo, hi, "utf8:c1") || !i.byteIn(b[2], 0x80, 0xbf, "utf8:c2") ||
			!i.byteIn(b[3], 0x80, 0xbf, "utf8:c3") {
			return rerr, 1
		}
		r := s.BOr(s.BOr(s.BOr(s.Shl(s.BAnd(z32(b0), c32(0x07)), c32(18)),
			s.Shl(s.BAnd(z32(b[1]), c32(0x3f)), c32(12))),
			s.Shl(s.BAnd(z32(b[2]), c32(0x3f)), c32(6))), s.BAnd(z32(b[3]), c32(0x3f)))
		return i.val(r, types.Int32), 4
	}
	return rerr, 1
}

// decodeLastRune implements utf8.DecodeLastRune.
func (i *interpreter) decodeLastRune(b []value) (value, int) {
	n := len(b)
	if n == 0 {
		return int32(utf8.RuneError), 0
	}
	if i.byteIn(b[n-1], 0x00, 0x7f, "utf8:last-ascii") {
		if c, ok := b[n-1].(uint8); ok {
			return int32(c), 1
		}
		return i.val(i.st.Resize(i.term(b[n-1]), 32, false), types.Int32), 1
	}
	lim := n - 4
	if lim < 0 {
		lim = 0
	}
	start := n - 1
	for start--; start >= lim; start-- {
		if !i.byteIn(b[start], 0x80, 0xbf, "utf8:last-cont") { // RuneStart
			break
		}
	}
	if start < lim {
		start = lim
	}
	r, size := i.decodeRune(b[start:n])
	if start+size != n {
		return int32(utf8.RuneError), 1
	}
	return r, size
}

// encodeRune implements utf8.AppendRune(nil, r).
func (i *interpreter) encodeRune(r value) []value {
	if c, ok := r.(int32); ok {
		bs := utf8.AppendRune(nil, c)
		out := make([]value, len(bs))
		for k, b := range bs {
			out[k] = b
		}
		return out
	}
	s := i.st
	t := i.term(r)
	c32 := func(v uint64) *Term { return s.BV(32, v) }
	b8 := func(t *Term) value { return i.val(s.Resize(t, 8, false), types.Uint8) }
	if i.decide(s.ULt(t, c32(0x80)), "enc:1") {
		return []value{b8(t)}
	}
	i.nonASCII++
	if i.decide(s.ULt(t, c32(0x800)), "enc:2") {
		return []value{
			b8(s.BOr(c32(0xc0), s.LShr(t, c32(6)))),
			b8(s.BOr(c32(0x80), s.BAnd(t, c32(0x3f)))),
		}
	}
	bad := s.Or(s.ULt(c32(0x10ffff), t), s.And(s.ULe(c32(0xd800), t), s.ULe(t, c32(0xdfff))))
	if i.decide(bad, "enc:bad") {
		return []value{uint8(0xef), uint8(0xbf), uint8(0xbd)}
	}
	if i.decide(s.ULt(t, c32(0x10000)), "enc:3") {
		return []value{
			b8(s.BOr(c32(0xe0), s.LShr(t, c32(12)))),
			b8(s.BOr(c32(0x80), s.BAnd(s.LShr(t, c32(6)), c32(0x3f)))),
			b8(s.BOr(c32(0x80), s.BAnd(t, c32(0x3f)))),
		}
	}
	return []value{
		b8(s.BOr(c32(0xf0), s.LShr(t, c32(18)))),
		b8(s.BOr(c32(0x80), s.BAnd(s.LShr(t, c32(12)), c32(0x3f)))),
		b8(s.BOr(c32(0x80), s.BAnd(s.LShr(t, c32(6)), c32(0x3f)))),
		b8(s.BOr(c32(0x80), s.BAnd(t, c32(0x3f)))),
	}
}

type runtimeErr string

func (e runtimeErr) Error() string { return "runtime error: " + string(e) }
func (e runtimeErr) RuntimeError() {}
