package sx

import (
	"fmt"
	"go/types"
)

// smap is the executor's map: an insertion-ordered entry list. Keys may be
// symbolic; after every structural operation the live keys are pairwise
// distinct under the path condition (insertion decides equality by forking).
type smap struct {
	keyT    types.Type
	elemT   types.Type
	entries []*mapEntry
	idx     map[any]*mapEntry // concrete basic / pointer keys only
	nlive   int
	nsymkey int // live entries whose key has symbolic parts
}

type mapEntry struct {
	key  value
	val  value
	dead bool
}

func newSmap(kt, et types.Type) *smap {
	return &smap{keyT: kt, elemT: et, idx: map[any]*mapEntry{}}
}

func (m *smap) len() int {
	if m == nil {
		return 0
	}
	return m.nlive
}

func (m *smap) live() []*mapEntry {
	if m == nil {
		return nil
	}
	out := make([]*mapEntry, 0, m.nlive)
	for _, e := range m.entries {
		if !e.dead {
			out = append(out, e)
		}
	}
	return out
}

// hashKey returns a Go-comparable representative for concrete simple keys.
func hashKey(k value) (any, bool) {
	switch k := k.(type) {
	case bool, int, int8, int16, int32, int64, uint, uint8, uint16, uint32, uint64, uintptr, float32, float64, string:
		return k, true
	case *value:
		return k, true
	}
	return nil, false
}

// find locates the entry equal to k, forking on symbolic equalities.
func (i *interpreter) mapFind(m *smap, k value) *mapEntry {
	if m == nil {
		return nil
	}
	if hk, ok := hashKey(k); ok {
		if e := m.idx[hk]; e != nil && !e.dead {
			return e
		}
		if m.nsymkey == 0 {
			// all live keys concrete: hashable ones are in idx; others (iface/struct) need scan
			if len(m.idx) == m.nlive {
				return nil
			}
		}
	}
	for _, e := range m.entries {
		if e.dead {
			continue
		}
		eq := i.simp(i.eqTerm(m.keyT, e.key, k))
		if eq.IsConst() {
			if eq.C == 1 {
				return e
			}
			continue
		}
		if i.decide(eq, "mapkey==") {
			return e
		}
	}
	return nil
}

// mapLookup implements v, ok := m[k]. For scalar element types a symbolic
// key yields an ite-chain instead of forks.
func (i *interpreter) mapLookup(m *smap, k value, elemT types.Type) (value, value) {
	if m == nil || m.nlive == 0 {
		return zero(elemT), false
	}
	if hasSym(k) || m.nsymkey > 0 {
		if isScalarType(elemT) {
			if v, ok, done := i.mapLookupIte(m, k, elemT); done {
				return v, ok
			}
		}
	}
	e := i.mapFind(m, k)
	if e == nil {
		return zero(elemT), false
	}
	e.val = i.reduceVal(e.val)
	return e.val, true
}

func isScalarType(t types.Type) bool {
	b, ok := t.Underlying().(*types.Basic)
	if !ok {
		return false
	}
	return b.Info()&(types.IsBoolean|types.IsInteger|types.IsFloat) != 0
}

func (i *interpreter) mapLookupIte(m *smap, k value, elemT types.Type) (value, value, bool) {
	s := i.st
	kind := basicKindOf(elemT)
	var vt *Term = i.term(zero(elemT))
	okt := s.False
	// build from last to first so the first match wins (keys are distinct anyway)
	live := m.live()
	for j := len(live) - 1; j >= 0; j-- {
		e := live[j]
		eq := i.simp(i.eqTerm(m.keyT, e.key, k))
		if eq == s.False {
			continue
		}
		if eq == s.True {
			// decided by the path condition: keys are pairwise distinct, so this is the entry
			e.val = i.reduceVal(e.val)
			vt = i.term(e.val)
			okt = s.True
			continue
		}
		vt = s.Ite(eq, i.term(e.val), vt)
		okt = s.Or(eq, okt)
	}
	return i.val(vt, kind), i.val(okt, types.Bool), true
}

func (i *interpreter) mapUpdate(m *smap, k, v value) {
	if m == nil {
		panic(runtimeErr("assignment to entry in nil map"))
	}
	if e := i.mapFind(m, k); e != nil {
		e.val = i.reduceVal(v)
		return
	}
	e := &mapEntry{key: k, val: i.reduceVal(v)}
	m.entries = append(m.entries, e)
	m.nlive++
	if hk, ok := hashKey(k); ok {
		m.idx[hk] = e
	} else if hasSym(k) {
		m.nsymkey++
	}
}

func (i *interpreter) mapDelete(m *smap, k value) {
	if m == nil {
		return
	}
	e := i.mapFind(m, k)
	if e == nil {
		return
	}
	e.dead = true
	m.nlive--
	if hk, ok := hashKey(e.key); ok {
		delete(m.idx, hk)
	} else if hasSym(e.key) {
		m.nsymkey--
	}
	// compact occasionally
	if len(m.entries) > 32 && m.nlive*2 < len(m.entries) {
		m.entries = m.live()
	}
}

// mapIter iterates a snapshot of the live entries in an order chosen by the
// explorer: insertion order, or (for small maps under MapOrderMax) every
// permutation via an n-way fork.
type mapIter struct {
	m     *smap
	order []*mapEntry
	pos   int
}

func (i *interpreter) newMapIter(m *smap, site string) *mapIter {
	it := &mapIter{m: m}
	if m == nil {
		return it
	}
	live := m.live()
	n := len(live)
	if n >= 2 && n <= i.mapOrderMax && i.inInit == 0 {
		i.usedMapOrder = true
		// choose a permutation by successive picks (n * (n-1) * ... forks)
		i.mapRangesForked++
		rest := append([]*mapEntry(nil), live...)
		for len(rest) > 1 {
			c := i.choose(len(rest), "maporder@"+site)
			it.order = append(it.order, rest[c])
			rest = append(rest[:c:c], rest[c+1:]...)
		}
		it.order = append(it.order, rest[0])
	} else if n >= 2 && i.mapOrderBig && i.inInit == 0 {
		i.usedMapOrder = true
		i.mapRangesForked++
		it.order = append([]*mapEntry(nil), live...)
		if i.choose(2, "maporder(2 orders)@"+site) == 1 {
			for a, b := 0, len(it.order)-1; a < b; a, b = a+1, b-1 {
				it.order[a], it.order[b] = it.order[b], it.order[a]
			}
		}
	} else {
		if n >= 2 {
			i.mapRangesFixed++
			if i.fixedRangeSites != nil {
				i.fixedRangeSites[site]++
			}
		}
		it.order = live
	}
	return it
}

func (it *mapIter) next(fr *frame) tuple {
	for it.pos < len(it.order) {
		e := it.order[it.pos]
		it.pos++
		if e.dead {
			continue
		}
		return tuple{true, e.key, e.val}
	}
	return tuple{false, nil, nil}
}

func (m *smap) String() string { return fmt.Sprintf("smap(%d)", m.len()) }
