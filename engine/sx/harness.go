package sx

import (
	"fmt"
	"go/types"
	"os"
	"strings"

	"golang.org/x/tools/go/ssa"
)

// Harness API, intercepted by function name (any package):
//
//	verifInt(name) int, verifInt64, verifInt32, verifUint32, verifUint16, verifByte, verifBool,
//	verifFloat64, verifFloat32, verifIntRange(name, lo, hi) int [concrete fork],
//	verifString(name, n) string, verifBytes(name, n) []byte,
//	verifAssume(bool), verifAssert(bool, msg), verifReach(label), verifMapOrder(k),
//	verifCatch(func()) bool, verifOpaque() string ...

type lockState struct{}

func (i *interpreter) intercept(fn *ssa.Function, name string) externalFn {
	n := fn.Name()
	if !strings.HasPrefix(n, "verif") {
		return nil
	}
	if h, ok := harnessAPI[n]; ok {
		return h
	}
	return nil
}

func (i *interpreter) newVar(name, kind string, k types.BasicKind) value {
	sort, _ := kindInfo(k)
	if i.cfg.Concrete != nil {
		var bits uint64
		if i.concPos < len(i.cfg.Concrete) {
			bits = i.cfg.Concrete[i.concPos].Bits
		}
		i.concPos++
		var t *Term
		switch {
		case sort == SBool:
			t = i.st.Bool(bits == 1)
		case sort.IsBV():
			t = i.st.BV(sort.Width(), bits)
		case sort == SF64:
			t = i.st.mk(OpConst, SF64, bits, "")
		default:
			t = i.st.mk(OpConst, SF32, bits&0xffffffff, "")
		}
		return constToValue(t, k)
	}
	t := i.st.Var(name, sort)
	i.nondets = append(i.nondets, NondetRec{Name: name, Kind: kind, T: t})
	return &Sym{T: t, K: k}
}

func nameArg(a value) string {
	if s, ok := a.(string); ok {
		return s
	}
	return "anon"
}

var harnessAPI = map[string]externalFn{}

func init() {
	for k, v := range map[string]externalFn{
		"verifInt":     func(fr *frame, a []value) value { return fr.i.newVar(nameArg(a[0]), "int", types.Int) },
		"verifInt64":   func(fr *frame, a []value) value { return fr.i.newVar(nameArg(a[0]), "int64", types.Int64) },
		"verifInt32":   func(fr *frame, a []value) value { return fr.i.newVar(nameArg(a[0]), "int32", types.Int32) },
		"verifUint32":  func(fr *frame, a []value) value { return fr.i.newVar(nameArg(a[0]), "uint32", types.Uint32) },
		"verifUint16":  func(fr *frame, a []value) value { return fr.i.newVar(nameArg(a[0]), "uint16", types.Uint16) },
		"verifUint64":  func(fr *frame, a []value) value { return fr.i.newVar(nameArg(a[0]), "uint64", types.Uint64) },
		"verifByte":    func(fr *frame, a []value) value { return fr.i.newVar(nameArg(a[0]), "byte", types.Uint8) },
		"verifBool":    func(fr *frame, a []value) value { return fr.i.newVar(nameArg(a[0]), "bool", types.Bool) },
		"verifFloat64": func(fr *frame, a []value) value { return fr.i.newVar(nameArg(a[0]), "float64", types.Float64) },
		"verifFloat32": func(fr *frame, a []value) value { return fr.i.newVar(nameArg(a[0]), "float32", types.Float32) },
		"verifIntRange": func(fr *frame, a []value) value {
			i := fr.i
			lo, hi := asInt64(a[1]), asInt64(a[2])
			if hi < lo {
				i.abort(abortPruned, "empty verifIntRange")
			}
			var v int64
			if i.cfg.Concrete != nil {
				if i.concPos < len(i.cfg.Concrete) {
					v = int64(i.cfg.Concrete[i.concPos].Bits)
				}
				i.concPos++
				if v < lo || v > hi {
					v = lo
				}
			} else {
				c := i.choose(int(hi-lo+1), "range:"+nameArg(a[0]))
				v = lo + int64(c)
			}
			i.nondets = append(i.nondets, NondetRec{Name: nameArg(a[0]), Kind: "choice", Conc: v})
			return int(v)
		},
		"verifString": func(fr *frame, a []value) value {
			i := fr.i
			n := int(asInt64(a[1]))
			b := make([]value, n)
			for k := range b {
				b[k] = i.newVar(fmt.Sprintf("%s[%d]", nameArg(a[0]), k), "byte", types.Uint8)
			}
			return mkStr(b)
		},
		"verifBytes": func(fr *frame, a []value) value {
			i := fr.i
			n := int(asInt64(a[1]))
			b := make([]value, n)
			for k := range b {
				b[k] = i.newVar(fmt.Sprintf("%s[%d]", nameArg(a[0]), k), "byte", types.Uint8)
			}
			return b
		},
		"verifAssume": func(fr *frame, a []value) value {
			i := fr.i
			c := i.term(a[0])
			if c.IsConst() {
				if c.C == 0 {
					i.abort(abortPruned, "assume(false)")
				}
				return nil
			}
			// keep PC feasible: prune if the assumption is unsatisfiable here
			if v, ok := i.evalRanges(c); ok {
				if !v {
					i.abort(abortPruned, "assumption contradicts the path condition")
				}
				return nil
			}
			feasible := false
			if i.model != nil {
				if mv, ok := evalTerm(c, i.model, map[int]uint64{}); ok && mv == 1 {
					feasible = true
					i.modelHits++
				}
			}
			if !feasible && i.checkSide(c) == "unsat" {
				i.abort(abortPruned, "assumption infeasible")
			}
			i.assume(c)
			return nil
		},
		"verifAssert": func(fr *frame, a []value) value {
			msg := nameArg(a[1])
			fr.i.checkAssert(fr.i.term(a[0]), msg)
			return nil
		},
		// verifAssertModel: an assertion about something only the model can observe (number of
		// reads of a file, recorded sleeps): a violation has no native replay
		"verifAssertModel": func(fr *frame, a []value) value {
			msg := nameArg(a[1])
			fr.i.assertKind = "model"
			fr.i.checkAssert(fr.i.term(a[0]), msg)
			fr.i.assertKind = ""
			return nil
		},
		"verifReach": func(fr *frame, a []value) value {
			if fr.i.pcHasF && fr.i.reached[nameArg(a[0])] == 0 {
				if r, _ := fr.i.fullModel(nil); r != "sat" {
					return nil
				}
			}
			fr.i.reached[nameArg(a[0])]++
			return nil
		},
		"verifMapOrder": func(fr *frame, a []value) value {
			fr.i.mapOrderMax = int(asInt64(a[0]))
			return nil
		},
		// verifMapOrderBig(on): while on, a range over a map larger than the all-orders bound is
		// explored in two orders (insertion order and its reverse) instead of one
		"verifMapOrderBig": func(fr *frame, a []value) value {
			fr.i.mapOrderBig = a[0].(bool)
			return nil
		},
		"verifCatch": func(fr *frame, a []value) (res value) {
			i := fr.i
			defer func() {
				if p := recover(); p != nil {
					switch p.(type) {
					case targetPanic, runtimeErr:
						i.lastCaught = fmt.Sprint(p)
						if os.Getenv("VERIF_SHOWCAUGHT") != "" {
							fmt.Fprintln(os.Stderr, "verifCatch caught:", i.lastCaught, "at", i.panicSite)
						}
						if i.panicSite != "" {
							i.lastCaughtSite = i.panicSite
						}
						i.panicSite = ""
						res = true
					default:
						panic(p)
					}
				}
			}()
			i.call(fr, 0, a[0], nil)
			return false
		},
		// verifCaptureStdout(f func()) string: runs f and returns what it printed
		"verifCaptureStdout": func(fr *frame, a []value) value {
			i := fr.i
			before := i.stdout.Len()
			i.call(fr, 0, a[0], nil)
			return i.stdout.String()[before:]
		},
		"verifConcrete": func(fr *frame, a []value) value {
			// verifConcrete(x int) int: enumerate a symbolic int within [0, MaxEnum]
			return int(fr.i.concInt(a[0], 0, int64(fr.i.cfg.MaxEnum), "verifConcrete"))
		},
		"verifTrace": func(fr *frame, a []value) value {
			fr.i.trace = append(fr.i.trace, nameArg(a[0])+"="+traceRender(a[1]))
			return nil
		},
		"verifIsSymbolicRun": func(fr *frame, a []value) value { return true },
	} {
		harnessAPI[k] = v
	}
}

func traceRender(v value) string {
	if it, ok := v.(iface); ok {
		v = it.v
	}
	switch x := v.(type) {
	case string:
		return fmt.Sprintf("%q", x)
	case nil:
		return "<nil>"
	case []value:
		var parts []string
		for _, e := range x {
			parts = append(parts, traceRender(e))
		}
		return "[" + strings.Join(parts, " ") + "]"
	case structure:
		var parts []string
		for _, e := range x {
			parts = append(parts, traceRender(e))
		}
		return "{" + strings.Join(parts, " ") + "}"
	case *value:
		if x == nil {
			return "<nil>"
		}
		return "&" + traceRender(*x)
	case bool, int, int8, int16, int32, int64, uint, uint8, uint16, uint32, uint64, uintptr, float32, float64:
		return fmt.Sprint(x)
	}
	return toString(v)
}
