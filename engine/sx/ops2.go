package sx

import (
	"bytes"
	"fmt"
	"go/token"
	"go/types"
	"os"

	"golang.org/x/tools/go/ssa"
)

type unsafePtr struct{ p value }

func deref(t types.Type) types.Type {
	if p, ok := t.Underlying().(*types.Pointer); ok {
		return p.Elem()
	}
	panic(fmt.Sprintf("deref: %v is not a pointer", t))
}

func isStrVal(v value) bool {
	switch v.(type) {
	case string, symstr:
		return true
	}
	return false
}

// eqnilOrEq implements == for all types, returning a value (bool or *Sym).
func (i *interpreter) eqValue(t types.Type, x, y value) value {
	switch t.Underlying().(type) {
	case *types.Map, *types.Signature, *types.Slice:
		// one operand is literally nil
		return isNilValue(x) == isNilValue(y)
	}
	return i.val(i.eqTerm(t, x, y), types.Bool)
}

func isNilValue(v value) bool {
	switch v := v.(type) {
	case *smap:
		return v == nil
	case *ssa.Function:
		return v == nil
	case *closure:
		return v == nil
	case *ssa.Builtin:
		return v == nil
	case []value:
		return v == nil
	case *value:
		return v == nil
	case iface:
		return v.t == nil
	}
	panic(fmt.Sprintf("isNilValue: %T", v))
}

func (i *interpreter) binop(op token.Token, t types.Type, x, y value) value {
	switch op {
	case token.EQL:
		return i.eqValue(t, x, y)
	case token.NEQ:
		return i.notValue(i.eqValue(t, x, y))
	}
	if isStrVal(x) || isStrVal(y) {
		xs, xok := x.(string)
		ys, yok := y.(string)
		if xok && yok {
			return binopConcrete(op, t, xs, ys)
		}
		switch op {
		case token.ADD:
			xb, yb := strBytes(x), strBytes(y)
			out := make([]value, 0, len(xb)+len(yb))
			out = append(out, xb...)
			out = append(out, yb...)
			return mkStr(out)
		case token.LSS:
			return i.val(i.strLess(x, y), types.Bool)
		case token.GTR:
			return i.val(i.strLess(y, x), types.Bool)
		case token.LEQ:
			return i.val(i.st.Not(i.strLess(y, x)), types.Bool)
		case token.GEQ:
			return i.val(i.st.Not(i.strLess(x, y)), types.Bool)
		}
		panic(fmt.Sprintf("string binop %v", op))
	}
	_, xs := x.(*Sym)
	_, ys := y.(*Sym)
	if xs || ys {
		return i.symBinop(op, x, y)
	}
	if (op == token.QUO || op == token.REM) && isIntegerValue(y) && asInt64orU(y) == 0 {
		panic(runtimeErr("integer divide by zero"))
	}
	return binopConcrete(op, t, x, y)
}

func isIntegerValue(v value) bool {
	switch v.(type) {
	case int, int8, int16, int32, int64, uint, uint8, uint16, uint32, uint64, uintptr:
		return true
	}
	return false
}

func asInt64orU(v value) int64 { return asInt64(v) }

func (i *interpreter) notValue(v value) value {
	switch v := v.(type) {
	case bool:
		return !v
	case *Sym:
		return i.val(i.st.Not(v.T), types.Bool)
	}
	panic("notValue")
}

func (i *interpreter) unop(instr *ssa.UnOp, x value) value {
	switch instr.Op {
	case token.ARROW:
		i.abort(abortUnsupported, "channel receive")
	case token.MUL:
		if sp, ok := x.(*symElemPtr); ok {
			return i.selectScalar(sp.elems, sp.idx)
		}
		p := x.(*value)
		if p == nil {
			panic(runtimeErr("invalid memory address or nil pointer dereference"))
		}
		if i.loadHook != nil {
			i.loadHook(i.curFrame, p)
		}
		return load(deref(instr.X.Type()), p)
	}
	if sv, ok := x.(*Sym); ok {
		return i.symUnop(instr.Op, sv)
	}
	return unopConcrete(instr, x)
}

func unopConcrete(instr *ssa.UnOp, x value) value {
	switch instr.Op {
	case token.SUB:
		switch x := x.(type) {
		case int:
			return -x
		case int8:
			return -x
		case int16:
			return -x
		case int32:
			return -x
		case int64:
			return -x
		case uint:
			return -x
		case uint8:
			return -x
		case uint16:
			return -x
		case uint32:
			return -x
		case uint64:
			return -x
		case uintptr:
			return -x
		case float32:
			return -x
		case float64:
			return -x
		case complex64:
			return -x
		case complex128:
			return -x
		}
	case token.NOT:
		return !x.(bool)
	case token.XOR:
		switch x := x.(type) {
		case int:
			return ^x
		case int8:
			return ^x
		case int16:
			return ^x
		case int32:
			return ^x
		case int64:
			return ^x
		case uint:
			return ^x
		case uint8:
			return ^x
		case uint16:
			return ^x
		case uint32:
			return ^x
		case uint64:
			return ^x
		case uintptr:
			return ^x
		}
	}
	panic(fmt.Sprintf("invalid unary op %s %T", instr.Op, x))
}

// conv converts x from t_src to t_dst.
func (i *interpreter) conv(t_dst, t_src types.Type, x value) value {
	ut_src := t_src.Underlying()
	ut_dst := t_dst.Underlying()
	switch src := ut_src.(type) {
	case *types.Slice:
		// []byte / []rune -> string
		if db, ok := ut_dst.(*types.Basic); ok && db.Kind() == types.String {
			xs := x.([]value)
			switch src.Elem().Underlying().(*types.Basic).Kind() {
			case types.Byte:
				return mkStr(xs)
			case types.Rune:
				var out []value
				for _, r := range xs {
					out = append(out, i.encodeRune(r)...)
				}
				return mkStr(out)
			}
		}
	case *types.Basic:
		if src.Info()&types.IsString != 0 {
			switch dst := ut_dst.(type) {
			case *types.Slice:
				b := strBytes(x)
				switch dst.Elem().Underlying().(*types.Basic).Kind() {
				case types.Byte:
					out := make([]value, len(b))
					copy(out, b)
					return out
				case types.Rune:
					var out []value
					for k := 0; k < len(b); {
						r, n := i.decodeRune(b[k:])
						out = append(out, r)
						k += n
					}
					return out
				}
			case *types.Basic:
				if dst.Kind() == types.String {
					return x
				}
			}
		}
		if sv, ok := x.(*Sym); ok {
			db, ok := ut_dst.(*types.Basic)
			if !ok {
				panic(fmt.Sprintf("conv: symbolic %v -> %v", t_src, t_dst))
			}
			if db.Kind() == types.String {
				// integer -> string
				r := i.symConv(sv, types.Int32)
				return mkStr(i.encodeRune(r))
			}
			return i.symConv(sv, basicKindOf(t_dst))
		}
	}
	return convConcrete(t_dst, t_src, x)
}

// slice returns x[lo:hi:max]. Any of lo, hi and max may be nil.
func (i *interpreter) slice(x, lo, hi, max value) value {
	var Len, Cap int
	isStr := false
	switch x := x.(type) {
	case string:
		Len = len(x)
		Cap = Len
		isStr = true
	case symstr:
		Len = len(x.b)
		Cap = Len
		isStr = true
	case []value:
		Len = len(x)
		Cap = cap(x)
	case *value: // *array
		if x == nil {
			panic(runtimeErr("invalid memory address or nil pointer dereference"))
		}
		a := (*x).(array)
		Len = len(a)
		Cap = cap(a)
	}
	s := i.st
	// resolve symbolic bounds with obligations, high to low
	m := int64(Cap)
	if max != nil {
		if sv, ok := max.(*Sym); ok {
			w := sv.T.Sort.Width()
			okc := s.And(s.SLe(s.BV(w, 0), sv.T), s.SLe(sv.T, s.BV(w, uint64(Cap))))
			if !i.decide(okc, "slice:max") {
				panic(runtimeErr("slice bounds out of range [::symbolic]"))
			}
			m = i.concInt(max, 0, int64(Cap), "slice:max")
		} else {
			m = asInt64(max)
		}
	}
	h := int64(Len)
	if hi != nil {
		if sv, ok := hi.(*Sym); ok {
			w := sv.T.Sort.Width()
			okc := s.And(s.SLe(s.BV(w, 0), sv.T), s.SLe(sv.T, s.BV(w, uint64(m))))
			if !i.decide(okc, "slice:hi") {
				panic(runtimeErr(fmt.Sprintf("slice bounds out of range [:symbolic] with capacity %d", m)))
			}
			h = i.concInt(hi, 0, m, "slice:hi")
		} else {
			h = asInt64(hi)
		}
	} else if max != nil && !isStr {
		h = int64(Len)
	}
	l := int64(0)
	if lo != nil {
		if sv, ok := lo.(*Sym); ok {
			w := sv.T.Sort.Width()
			okc := s.And(s.SLe(s.BV(w, 0), sv.T), s.SLe(sv.T, s.BV(w, uint64(h))))
			if !i.decide(okc, "slice:lo") {
				panic(runtimeErr(fmt.Sprintf("slice bounds out of range [symbolic:%d]", h)))
			}
			l = i.concInt(lo, 0, h, "slice:lo")
		} else {
			l = asInt64(lo)
		}
	}
	switch x := x.(type) {
	case string:
		if h > int64(len(x)) || l > h || l < 0 {
			panic(runtimeErr(fmt.Sprintf("slice bounds out of range [%d:%d] with length %d", l, h, len(x))))
		}
		return x[l:h]
	case symstr:
		if h > int64(len(x.b)) || l > h || l < 0 {
			panic(runtimeErr(fmt.Sprintf("slice bounds out of range [%d:%d] with length %d", l, h, len(x.b))))
		}
		return mkStr(x.b[l:h])
	case []value:
		if l < 0 || l > h || h > m || m > int64(cap(x)) {
			panic(runtimeErr(fmt.Sprintf("slice bounds out of range [%d:%d:%d] with capacity %d", l, h, m, cap(x))))
		}
		if x == nil {
			return []value(nil)
		}
		return x[l:h:m]
	case *value: // *array
		a := (*x).(array)
		if l < 0 || l > h || h > m || m > int64(cap(a)) {
			panic(runtimeErr(fmt.Sprintf("slice bounds out of range [%d:%d:%d] with capacity %d", l, h, m, cap(a))))
		}
		return []value(a)[l:h:m]
	}
	panic(fmt.Sprintf("slice: unexpected X type: %T", x))
}

// selectScalar builds elems[idx] as an ite-chain (idx already bounds-checked).
func (i *interpreter) selectScalar(elems []value, idx *Sym) value {
	s := i.st
	w := idx.T.Sort.Width()
	n := len(elems)
	kind := kindOfValue(elems[0])
	terms := make([]*Term, n)
	for k := range elems {
		terms[k] = i.term(elems[k])
	}
	// compress runs of identical terms into range tests
	type run struct {
		lo, hi int
		t      *Term
	}
	var runs []run
	for k := 0; k < n; k++ {
		if len(runs) > 0 && runs[len(runs)-1].t == terms[k] {
			runs[len(runs)-1].hi = k
		} else {
			runs = append(runs, run{k, k, terms[k]})
		}
	}
	// pick the most frequent term as the default to shorten the chain
	cnt := map[*Term]int{}
	best := runs[0].t
	for _, r := range runs {
		cnt[r.t] += r.hi - r.lo + 1
		if cnt[r.t] > cnt[best] {
			best = r.t
		}
	}
	r := best
	for k := len(runs) - 1; k >= 0; k-- {
		ru := runs[k]
		if ru.t == best {
			continue
		}
		var c *Term
		if ru.lo == ru.hi {
			c = s.Eq(idx.T, s.BV(w, uint64(ru.lo)))
		} else {
			c = s.And(s.ULe(s.BV(w, uint64(ru.lo)), idx.T), s.ULe(idx.T, s.BV(w, uint64(ru.hi))))
		}
		r = s.Ite(c, ru.t, r)
	}
	return i.val(r, kind)
}

func allScalar(elems []value) bool {
	if len(elems) == 0 {
		return false
	}
	k0 := types.Invalid
	for n, e := range elems {
		switch e.(type) {
		case bool, int, int8, int16, int32, int64, uint, uint8, uint16, uint32, uint64, uintptr, float32, float64, *Sym:
			k := kindOfValue(e)
			if n == 0 {
				k0 = k
			} else if k != k0 {
				return false
			}
		default:
			return false
		}
	}
	return true
}

// indexValue reads elems[idx] for a possibly symbolic idx.
func (i *interpreter) indexValue(elems []value, idx value, what string) value {
	sv, ok := idx.(*Sym)
	if !ok {
		k := asInt64(idx)
		if k < 0 || k >= int64(len(elems)) {
			panic(runtimeErr(fmt.Sprintf("index out of range [%d] with length %d", k, len(elems))))
		}
		return elems[k]
	}
	i.boundsCheck(idx, len(elems), what)
	if allScalar(elems) && len(elems) <= 4096 {
		return i.selectScalar(elems, sv)
	}
	k := i.concInt(idx, 0, int64(len(elems)-1), what)
	return elems[k]
}

// lookup returns x[idx] where x is a map or string.
func (i *interpreter) lookup(instr *ssa.Lookup, x, idx value) value {
	switch x := x.(type) {
	case *smap:
		if i.mapAccessHook != nil {
			i.mapAccessHook(i.curFrame, x, false)
		}
		elemT := instr.X.Type().Underlying().(*types.Map).Elem()
		v, ok := i.mapLookup(x, idx, elemT)
		if instr.CommaOk {
			return tuple{v, ok}
		}
		return v
	case string, symstr:
		return i.indexValue(strBytes(x), idx, "string index")
	}
	panic(fmt.Sprintf("unexpected x type in Lookup: %T", x))
}

func checkInterface(itype *types.Interface, x iface) string {
	if meth, _ := types.MissingMethod(x.t, itype, true); meth != nil {
		return fmt.Sprintf("interface conversion: %v is not %v: missing method %s", x.t, itype, meth.Name())
	}
	return ""
}

func typeAssert(instr *ssa.TypeAssert, itf iface) value {
	var v value
	err := ""
	if itf.t == nil {
		err = fmt.Sprintf("interface conversion: interface is nil, not %s", instr.AssertedType)
	} else if idst, ok := instr.AssertedType.Underlying().(*types.Interface); ok {
		v = itf
		err = checkInterface(idst, itf)
	} else if types.Identical(itf.t, instr.AssertedType) {
		v = itf.v
	} else {
		err = fmt.Sprintf("interface conversion: interface is %s, not %s", itf.t, instr.AssertedType)
	}
	if err != "" {
		if !instr.CommaOk {
			panic(runtimeErr(err))
		}
		return tuple{zero(instr.AssertedType), false}
	}
	if instr.CommaOk {
		return tuple{v, true}
	}
	return v
}

func (i *interpreter) callBuiltin(caller *frame, fn *ssa.Builtin, args []value) value {
	switch fn.Name() {
	case "append":
		if len(args) == 1 {
			return args[0]
		}
		if isStrVal(args[1]) {
			arg0 := args[0].([]value)
			return append(arg0, strBytes(args[1])...)
		}
		// struct / array elements are values: the appended ones are copies, not shared with the source
		out := args[0].([]value)
		for _, e := range args[1].([]value) {
			out = append(out, cloneVal(e))
		}
		return out

	case "copy":
		src := args[1]
		if isStrVal(src) {
			src = strBytes(src)
		}
		dst, sv := args[0].([]value), src.([]value)
		n := len(dst)
		if len(sv) < n {
			n = len(sv)
		}
		if n > 0 && &dst[0] != &sv[0] {
			// element-wise, in place (pointers into dst keep seeing its memory); overlapping
			// ranges of one backing array are handled by the built-in below
			if _, isStruct := sv[0].(structure); isStruct {
				tmp := make([]value, n)
				for k := 0; k < n; k++ {
					tmp[k] = cloneVal(sv[k])
				}
				for k := 0; k < n; k++ {
					assignInPlace(&dst[k], tmp[k])
				}
				return n
			}
			if _, isArr := sv[0].(array); isArr {
				for k := 0; k < n; k++ {
					dst[k] = cloneVal(sv[k])
				}
				return n
			}
		}
		return copy(dst, sv)

	case "close":
		i.abort(abortUnsupported, "close(chan)")

	case "delete":
		if i.mapAccessHook != nil {
			i.mapAccessHook(caller, args[0].(*smap), true)
		}
		i.mapDelete(args[0].(*smap), args[1])
		return nil

	case "clear":
		switch x := args[0].(type) {
		case *smap:
			if x != nil {
				for _, e := range x.live() {
					i.mapDelete(x, e.key)
				}
			}
		case []value:
			et := fn.Type().(*types.Signature).Params().At(0).Type().Underlying().(*types.Slice).Elem()
			for k := range x {
				x[k] = zero(et)
			}
		}
		return nil

	case "print", "println":
		ln := fn.Name() == "println"
		var buf bytes.Buffer
		for k, arg := range args {
			if k > 0 && ln {
				buf.WriteRune(' ')
			}
			buf.WriteString(toString(arg))
		}
		if ln {
			buf.WriteRune('\n')
		}
		if i.cfg.Verbose {
			os.Stderr.Write(buf.Bytes())
		}
		return nil

	case "len":
		switch x := args[0].(type) {
		case string:
			return len(x)
		case symstr:
			return len(x.b)
		case array:
			return len(x)
		case *value:
			return len((*x).(array))
		case []value:
			return len(x)
		case *smap:
			if i.mapAccessHook != nil {
				i.mapAccessHook(caller, x, false)
			}
			return x.len()
		default:
			panic(fmt.Sprintf("len: illegal operand: %T", x))
		}

	case "cap":
		switch x := args[0].(type) {
		case array:
			return cap(x)
		case *value:
			return cap((*x).(array))
		case []value:
			return cap(x)
		default:
			panic(fmt.Sprintf("cap: illegal operand: %T", x))
		}

	case "min", "max":
		r := args[0]
		for _, a := range args[1:] {
			_, s1 := r.(*Sym)
			_, s2 := a.(*Sym)
			if s1 || s2 {
				op := token.LSS
				if fn.Name() == "max" {
					op = token.GTR
				}
				c := i.symBinop(op, a, r) // a < r  (or a > r)
				ct := i.term(c)
				r = i.val(i.st.Ite(ct, i.term(a), i.term(r)), kindOfValue(r))
				continue
			}
			if fn.Name() == "min" {
				r = min(r, a)
			} else {
				r = max(r, a)
			}
		}
		return r

	case "panic":
		panic(targetPanic{args[0]})

	case "recover":
		return doRecover(caller)

	case "ssa:wrapnilchk":
		recv := args[0]
		if recv.(*value) == nil {
			panic(runtimeErr(fmt.Sprintf("value method (%s).%s called using nil *%s pointer",
				args[1], args[2], args[1])))
		}
		return recv

	case "ssa:deferstack":
		return &caller.defers
	}
	panic("unknown built-in: " + fn.Name())
}

func (i *interpreter) rangeIter(x value, site string) iter {
	switch x := x.(type) {
	case *smap:
		if i.mapAccessHook != nil {
			i.mapAccessHook(i.curFrame, x, false)
		}
		return i.newMapIter(x, site)
	case string, symstr:
		return &stringIter{b: strBytes(x)}
	}
	panic(fmt.Sprintf("cannot range over %T", x))
}

// cloneVal copies a value the way Go copies values: structs and arrays element-wise (they are
// stored inline), everything else (pointers, slices, maps, interfaces) by reference.
func cloneVal(v value) value {
	switch x := v.(type) {
	case structure:
		out := make(structure, len(x))
		for k := range x {
			out[k] = cloneVal(x[k])
		}
		return out
	case array:
		out := make(array, len(x))
		for k := range x {
			out[k] = cloneVal(x[k])
		}
		return out
	}
	return v
}

// assignInPlace overwrites *dst with src, keeping the identity of struct storage.
func assignInPlace(dst *value, src value) {
	d, ok1 := (*dst).(structure)
	s, ok2 := src.(structure)
	if ok1 && ok2 && len(d) == len(s) {
		for k := range d {
			assignInPlace(&d[k], s[k])
		}
		return
	}
	*dst = src
}
