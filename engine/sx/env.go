package sx

import "golang.org/x/tools/go/ssa"

// envModel holds the per-path environment stubs (clock, file system, sleeps).
type envModel struct {
	i          *interpreter
	clockN     int
	lastNow    *Term
	clk        *Term
	sleeps     []value
	files      map[string]*fsFile
	fsLog      []string
	readFaults map[string][]int
	writePlans map[string][]writePlan
	reads      map[string]int
	writes     map[string]int
	tokenOf    map[*value]tokenRef
	nextDoc    int
	docs       []*docToken
	indented   map[*value]bool // encoders with SetIndent: they write documents
	open       map[*value]*openFile
	decoded    int
	envVars    map[string]string
	decoders   map[*value]value // *yaml.Decoder / *json.Decoder cell -> the reader it was built on
}

func newEnvModel(i *interpreter) *envModel {
	return &envModel{i: i, files: map[string]*fsFile{}, readFaults: map[string][]int{}, writePlans: map[string][]writePlan{},
		reads: map[string]int{}, writes: map[string]int{}, tokenOf: map[*value]tokenRef{}, decoders: map[*value]value{}}
}

// patchGlobals sets globals of zero-initialised packages that code reads.
func (i *interpreter) patchGlobals(pkg *ssa.Package) {
	if pkg.Pkg.Path() == "time" {
		// the name tables Format / String read (package time's init is not executed)
		set := func(name string, names []string) {
			if g, ok := pkg.Members[name].(*ssa.Global); ok {
				vs := make([]value, len(names))
				for k, n := range names {
					vs[k] = n
				}
				*i.shared[g] = vs
			}
		}
		set("longDayNames", []string{"Sunday", "Monday", "Tuesday", "Wednesday", "Thursday", "Friday", "Saturday"})
		set("shortDayNames", []string{"Sun", "Mon", "Tue", "Wed", "Thu", "Fri", "Sat"})
		set("shortMonthNames", []string{"Jan", "Feb", "Mar", "Apr", "May", "Jun", "Jul", "Aug", "Sep", "Oct", "Nov", "Dec"})
		set("longMonthNames", []string{"January", "February", "March", "April", "May", "June", "July", "August", "September", "October", "November", "December"})
	}
	if pkg.Pkg.Path() == "os" {
		// os.ErrNotExist etc. alias the io/fs sentinels
		fsp := i.prog.ImportedPackage("io/fs")
		if fsp == nil {
			return
		}
		i.ensureInit(fsp)
		for _, n := range []string{"ErrInvalid", "ErrPermission", "ErrExist", "ErrNotExist", "ErrClosed"} {
			og, ok1 := pkg.Members[n].(*ssa.Global)
			fg, ok2 := fsp.Members[n].(*ssa.Global)
			if ok1 && ok2 {
				*i.shared[og] = *i.shared[fg]
			}
		}
	}
}

func (e *envModel) getenv(name string) string { return e.envVars[name] }
