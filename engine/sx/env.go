package sx

import "golang.org/x/tools/go/ssa"

// envModel holds the per-path environment stubs (clock, file system, sleeps).
type envModel struct {
	i       *interpreter
	clockN  int
	lastNow *Term
	clk     *Term
	sleeps  []value
	files   map[string]*fileState
	fsLog   []string
}

type fileState struct {
	data   []value
	exists bool
}

func newEnvModel(i *interpreter) *envModel {
	return &envModel{i: i, files: map[string]*fileState{}}
}

// patchGlobals sets globals of zero-initialised packages that code reads.
func (i *interpreter) patchGlobals(pkg *ssa.Package) {
}
