package sx

import "math/bits"

// sort.Slice & co: reflectlite is replaced by a native swapper; the sorting
// algorithm itself (pdqsort_func / stable_func / insertionSort) runs from SSA.
func init() {
	mkLessSwap := func(x value, less value) value {
		it := x.(iface)
		sl, _ := it.v.([]value)
		swap := &nativeFunc{fn: func(fr *frame, args []value) value {
			a, b := asInt64(args[0]), asInt64(args[1])
			sl[a], sl[b] = sl[b], sl[a]
			return nil
		}}
		return structure{less, swap}
	}
	externals["sort.Slice"] = func(fr *frame, a []value) value {
		i := fr.i
		sl, _ := a[0].(iface).v.([]value)
		n := len(sl)
		fn := i.prog.ImportedPackage("sort").Func("pdqsort_func")
		i.call(fr, 0, fn, []value{mkLessSwap(a[0], a[1]), 0, n, bits.Len(uint(n))})
		return nil
	}
	externals["sort.SliceStable"] = func(fr *frame, a []value) value {
		i := fr.i
		sl, _ := a[0].(iface).v.([]value)
		fn := i.prog.ImportedPackage("sort").Func("stable_func")
		i.call(fr, 0, fn, []value{mkLessSwap(a[0], a[1]), len(sl)})
		return nil
	}
}
