// Derived from golang.org/x/tools/go/ssa/interp (BSD-style license, The Go
// Authors). Symbolic path-replay executor over go/ssa.

package sx

import (
	"fmt"
	"go/token"
	"go/types"
	"slices"
	"strings"

	"golang.org/x/tools/go/ssa"
)

type continuation int

const (
	kNext continuation = iota
	kReturn
	kJump
)

type methodSet map[string]*ssa.Function

type deferred struct {
	fn    value
	args  []value
	instr *ssa.Defer
	tail  *deferred
}

type frame struct {
	i                *interpreter
	caller           *frame
	fn               *ssa.Function
	block, prevBlock *ssa.BasicBlock
	env              map[ssa.Value]value
	locals           []value
	defers           *deferred
	result           value
	panicking        bool
	panic            any
	phitemps         []value
	curInstr         ssa.Instruction
}

func (fr *frame) get(key ssa.Value) value {
	switch key := key.(type) {
	case nil:
		return nil
	case *ssa.Function, *ssa.Builtin:
		return key
	case *ssa.Const:
		return constValue(key)
	case *ssa.Global:
		return fr.i.globalAddr(fr, key)
	}
	if r, ok := fr.env[key]; ok {
		return r
	}
	panic(fmt.Sprintf("get: no value for %T: %v", key, key.Name()))
}

func (fr *frame) runDefer(d *deferred) {
	var ok bool
	defer func() {
		if !ok {
			p := recover()
			if _, isAbort := p.(*abortSignal); isAbort {
				panic(p)
			}
			fr.panicking = true
			fr.panic = p
		}
	}()
	fr.i.call(fr, d.instr.Pos(), d.fn, d.args)
	ok = true
}

func (fr *frame) runDefers() {
	for d := fr.defers; d != nil; d = d.tail {
		fr.runDefer(d)
	}
	fr.defers = nil
	if fr.panicking {
		panic(fr.panic)
	}
}

func lookupMethod(i *interpreter, typ types.Type, meth *types.Func) *ssa.Function {
	return i.prog.LookupMethod(typ, meth.Pkg(), meth.Name())
}

func (fr *frame) site(pos token.Pos) string {
	p := fr.i.prog.Fset.Position(pos)
	if !p.IsValid() {
		return fr.fn.String()
	}
	f := p.Filename
	if k := strings.LastIndex(f, "/"); k >= 0 {
		f = f[k+1:]
	}
	return fmt.Sprintf("%s:%d", f, p.Line)
}

func visitInstr(fr *frame, instr ssa.Instruction) continuation {
	i := fr.i
	i.steps++
	if i.steps > i.cfg.MaxSteps {
		i.abort(abortBudget, fmt.Sprintf("instruction budget %d exhausted in %s", i.cfg.MaxSteps, fr.fn))
	}
	fr.curInstr = instr
	i.curFrame = fr
	switch instr := instr.(type) {
	case *ssa.DebugRef:
		// no-op

	case *ssa.UnOp:
		fr.env[instr] = i.unop(instr, fr.get(instr.X))

	case *ssa.BinOp:
		fr.env[instr] = i.binop(instr.Op, instr.X.Type(), fr.get(instr.X), fr.get(instr.Y))

	case *ssa.Call:
		fn, args := prepareCall(fr, &instr.Call)
		fr.env[instr] = i.call(fr, instr.Pos(), fn, args)

	case *ssa.ChangeInterface:
		fr.env[instr] = fr.get(instr.X)

	case *ssa.ChangeType:
		fr.env[instr] = fr.get(instr.X)

	case *ssa.Convert:
		fr.env[instr] = i.conv(instr.Type(), instr.X.Type(), fr.get(instr.X))

	case *ssa.SliceToArrayPointer:
		i.abort(abortUnsupported, "SliceToArrayPointer")

	case *ssa.MakeInterface:
		fr.env[instr] = iface{t: instr.X.Type(), v: fr.get(instr.X)}

	case *ssa.Extract:
		fr.env[instr] = fr.get(instr.Tuple).(tuple)[instr.Index]

	case *ssa.Slice:
		fr.env[instr] = i.slice(fr.get(instr.X), fr.get(instr.Low), fr.get(instr.High), fr.get(instr.Max))

	case *ssa.Return:
		switch len(instr.Results) {
		case 0:
		case 1:
			fr.result = fr.get(instr.Results[0])
		default:
			var res []value
			for _, r := range instr.Results {
				res = append(res, fr.get(r))
			}
			fr.result = tuple(res)
		}
		fr.block = nil
		return kReturn

	case *ssa.RunDefers:
		fr.runDefers()

	case *ssa.Panic:
		panic(targetPanic{fr.get(instr.X)})

	case *ssa.Send:
		i.abort(abortUnsupported, "channel send")

	case *ssa.Store:
		addr := fr.get(instr.Addr).(*value)
		if addr == nil {
			panic(runtimeErr("invalid memory address or nil pointer dereference"))
		}
		if i.storeHook != nil {
			i.storeHook(fr, instr, addr)
		}
		store(deref(instr.Addr.Type()), addr, fr.get(instr.Val))

	case *ssa.If:
		succ := 1
		if i.truth(fr.get(instr.Cond), fr.site(instr.Cond.Pos())) {
			succ = 0
		}
		fr.prevBlock, fr.block = fr.block, fr.block.Succs[succ]
		return kJump

	case *ssa.Jump:
		fr.prevBlock, fr.block = fr.block, fr.block.Succs[0]
		return kJump

	case *ssa.Defer:
		fn, args := prepareCall(fr, &instr.Call)
		defers := &fr.defers
		if into := fr.get(instr.DeferStack); into != nil {
			defers = into.(**deferred)
		}
		*defers = &deferred{fn: fn, args: args, instr: instr, tail: *defers}

	case *ssa.Go:
		i.abort(abortUnsupported, "go statement in "+fr.fn.String())

	case *ssa.MakeChan:
		i.abort(abortUnsupported, "make(chan)")

	case *ssa.Alloc:
		var addr *value
		if instr.Heap {
			addr = new(value)
			fr.env[instr] = addr
			i.allocs++
		} else {
			addr = fr.env[instr].(*value)
		}
		*addr = zero(deref(instr.Type()))

	case *ssa.MakeSlice:
		fr.env[instr] = i.makeSlice(fr, instr)

	case *ssa.MakeMap:
		mt := instr.Type().Underlying().(*types.Map)
		if instr.Reserve != nil {
			i.checkAllocSize(fr, fr.get(instr.Reserve), "make(map) hint", false)
		}
		fr.env[instr] = newSmap(mt.Key(), mt.Elem())

	case *ssa.Range:
		fr.env[instr] = i.rangeIter(fr.get(instr.X), fr.site(instr.Pos()))

	case *ssa.Next:
		fr.env[instr] = fr.get(instr.Iter).(iter).next(fr)

	case *ssa.FieldAddr:
		p := fr.get(instr.X).(*value)
		if p == nil {
			panic(runtimeErr("invalid memory address or nil pointer dereference"))
		}
		fr.env[instr] = &(*p).(structure)[instr.Field]

	case *ssa.Field:
		fr.env[instr] = fr.get(instr.X).(structure)[instr.Field]

	case *ssa.IndexAddr:
		x := fr.get(instr.X)
		idx := fr.get(instr.Index)
		var elems []value
		switch x := x.(type) {
		case []value:
			elems = x
		case *value: // *array
			if x == nil {
				panic(runtimeErr("invalid memory address or nil pointer dereference"))
			}
			elems = (*x).(array)
		default:
			panic(fmt.Sprintf("unexpected x type in IndexAddr: %T", x))
		}
		if sv, ok := idx.(*Sym); ok {
			i.boundsCheck(idx, len(elems), fr.site(instr.Pos()))
			if onlyLoaded(instr) && allScalar(elems) {
				// read-only use of a scalar element: defer to an ite-chain at the load
				fr.env[instr] = &symElemPtr{elems: elems, idx: sv}
				break
			}
			k := i.concInt(idx, 0, int64(len(elems)-1), "index@"+fr.site(instr.Pos()))
			fr.env[instr] = &elems[k]
		} else {
			k := asInt64(idx)
			if k < 0 || k >= int64(len(elems)) {
				panic(runtimeErr(fmt.Sprintf("index out of range [%d] with length %d", k, len(elems))))
			}
			fr.env[instr] = &elems[k]
		}

	case *ssa.Index:
		x := fr.get(instr.X)
		idx := fr.get(instr.Index)
		switch x := x.(type) {
		case array:
			fr.env[instr] = i.indexValue(x, idx, fr.site(instr.Pos()))
		case string, symstr:
			fr.env[instr] = i.indexValue(strBytes(x), idx, fr.site(instr.Pos()))
		default:
			panic(fmt.Sprintf("unexpected x type in Index: %T", x))
		}

	case *ssa.Lookup:
		fr.env[instr] = i.lookup(instr, fr.get(instr.X), fr.get(instr.Index))

	case *ssa.MapUpdate:
		m := fr.get(instr.Map).(*smap)
		if i.mapWriteHook != nil {
			i.mapWriteHook(fr, instr, m)
		}
		i.mapUpdate(m, fr.get(instr.Key), fr.get(instr.Value))

	case *ssa.TypeAssert:
		fr.env[instr] = typeAssert(instr, fr.get(instr.X).(iface))

	case *ssa.MakeClosure:
		var bindings []value
		for _, binding := range instr.Bindings {
			bindings = append(bindings, fr.get(binding))
		}
		fr.env[instr] = &closure{instr.Fn.(*ssa.Function), bindings}

	case *ssa.Phi:
		panic("unreachable: phi")

	case *ssa.Select:
		i.abort(abortUnsupported, "select")

	default:
		panic(fmt.Sprintf("unexpected instruction: %T", instr))
	}
	return kNext
}

// checkAllocSize records an allocation whose size is symbolic and forks the
// negative-size panic. Returns nothing; callers then pick a concrete shape.
func (i *interpreter) checkAllocSize(fr *frame, n value, what string, panicsNegative bool) {
	sv, ok := n.(*Sym)
	if !ok {
		if panicsNegative && asInt64(n) < 0 {
			panic(runtimeErr(what + ": out of range"))
		}
		return
	}
	s := i.st
	w := sv.T.Sort.Width()
	_, signed := kindInfo(sv.K)
	i.symAllocs = append(i.symAllocs, symAlloc{site: fr.site(fr.curInstr.Pos()), what: what, size: sv})
	if panicsNegative && signed {
		if i.decide(s.SLt(sv.T, s.BV(w, 0)), what+"<0") {
			panic(runtimeErr(what + ": out of range"))
		}
	}
	if i.allocBoundSet {
		// the harness bounds input-derived allocation sizes: an obligation, then an assumption
		var within *Term
		if signed {
			within = s.SLe(sv.T, s.BV(w, uint64(i.allocBound)))
		} else {
			within = s.ULe(sv.T, s.BV(w, uint64(i.allocBound)))
		}
		i.allocSites[what+" at "+fr.site(fr.curInstr.Pos())]++
		// prefer a large witness (>= 2^28 elements): it reproduces natively whatever the element size
		var huge *Term
		if signed {
			huge = s.SLt(s.BV(w, 1<<28), sv.T)
		} else {
			huge = s.ULt(s.BV(w, 1<<28), sv.T)
		}
		if i.allocBound < 1<<28 {
			if r, _, _ := i.checkQ(huge); r == "sat" {
				if fr2, m := i.fullModel(huge); fr2 == "sat" {
					i.asserts++
					i.recordFinding("assert", i.allocMsg, fr.site(fr.curInstr.Pos()), m)
					if rc, _, _ := i.checkQ(within); rc == "unsat" {
						i.abort(abortStop, "allocation bound violated on the whole path")
					}
					i.assume(within)
					return
				}
			}
		}
		i.checkAssert(within, i.allocMsg)
	}
}

// widen64 converts a symbolic integer of any width to a 64-bit int value.
func (i *interpreter) widen64(v value) value {
	sv, ok := v.(*Sym)
	if !ok {
		return v
	}
	sort, signed := kindInfo(sv.K)
	if sort.Width() == 64 {
		return v
	}
	return i.val(i.st.Resize(sv.T, 64, signed), types.Int)
}

func (i *interpreter) makeSlice(fr *frame, instr *ssa.MakeSlice) value {
	ln, cp := fr.get(instr.Len), fr.get(instr.Cap)
	ln, cp = i.widen64(i.singleton(ln)), i.widen64(i.singleton(cp))
	tElt := instr.Type().Underlying().(*types.Slice).Elem()
	i.checkAllocSize(fr, ln, "makeslice: len", true)
	i.checkAllocSize(fr, cp, "makeslice: cap", true)
	var n int64
	if sv, ok := ln.(*Sym); ok {
		// len must not exceed cap
		if csv, ok := cp.(*Sym); ok {
			if !i.decide(i.st.SLe(sv.T, csv.T), "makeslice len<=cap") {
				panic(runtimeErr("makeslice: cap out of range"))
			}
		} else if !i.decide(i.st.SLe(sv.T, i.st.BV(64, uint64(asInt64(cp)))), "makeslice len<=cap") {
			panic(runtimeErr("makeslice: cap out of range"))
		}
		if i.decide(i.st.SLt(i.st.BV(64, uint64(i.cfg.MaxEnum)), sv.T), "makeslice len above enumeration bound") {
			i.abortAt(fr, abortUnsupported, fmt.Sprintf("symbolic slice length above the enumeration bound %d", i.cfg.MaxEnum))
		}
		n = i.concInt(ln, 0, int64(i.cfg.MaxEnum), "makeslice len")
	} else {
		n = asInt64(ln)
	}
	c := n
	if csv, ok := cp.(*Sym); ok {
		// capacity is unobservable except through cap(); use cap = len after the obligations
		if !i.decide(i.st.SLe(i.st.BV(64, uint64(n)), csv.T), "makeslice len<=cap") {
			panic(runtimeErr("makeslice: cap out of range"))
		}
		// the runtime refuses cap * element size above its address-space limit (2^48 bytes on
		// 64-bit Linux) with a panic, whatever memory the machine has
		es := int64(8)
		if i.sizes != nil {
			if z := i.sizes.Sizeof(tElt); z > 0 {
				es = z
			}
		}
		if i.decide(i.st.SLt(i.st.BV(64, uint64((int64(1)<<48)/es)), csv.T), "makeslice cap beyond the runtime's limit") {
			panic(runtimeErr("makeslice: cap out of range"))
		}
		if i.decide(i.st.SLt(i.st.BV(64, uint64(i.cfg.MaxAlloc)), csv.T), "makeslice cap huge") {
			// cap beyond any memory the process can have: runtime panics or OOMs
			i.hugeAllocs = append(i.hugeAllocs, fr.site(instr.Pos()))
		}
	} else {
		c = asInt64(cp)
		if c < n || c < 0 {
			panic(runtimeErr("makeslice: cap out of range"))
		}
		if c > int64(i.cfg.MaxAlloc) {
			i.abort(abortUnsupported, fmt.Sprintf("concrete allocation of %d elements", c))
		}
	}
	sl := make([]value, c)
	for k := range sl {
		sl[k] = zero(tElt)
	}
	i.allocs++
	return sl[:n]
}

// onlyLoaded reports whether every use of the address is a load.
func onlyLoaded(instr *ssa.IndexAddr) bool {
	refs := instr.Referrers()
	if refs == nil || len(*refs) == 0 {
		return false
	}
	for _, r := range *refs {
		u, ok := r.(*ssa.UnOp)
		if !ok || u.Op != token.MUL {
			if _, isDbg := r.(*ssa.DebugRef); isDbg {
				continue
			}
			return false
		}
	}
	return true
}

// nativeFunc is a func value implemented by the engine.
type nativeFunc struct {
	fn func(fr *frame, args []value) value
}

type symElemPtr struct {
	elems []value
	idx   *Sym
}

func prepareCall(fr *frame, call *ssa.CallCommon) (fn value, args []value) {
	v := fr.get(call.Value)
	if call.Method == nil {
		fn = v
	} else {
		recv := v.(iface)
		if recv.t == nil {
			panic(runtimeErr("invalid memory address or nil pointer dereference (method on nil interface)"))
		}
		if f := lookupMethod(fr.i, recv.t, call.Method); f == nil {
			panic(fmt.Sprintf("method set for dynamic type %v does not contain %s", recv.t, call.Method))
		} else {
			fn = f
		}
		args = append(args, recv.v)
	}
	for _, arg := range call.Args {
		args = append(args, fr.get(arg))
	}
	return
}

func (i *interpreter) call(caller *frame, callpos token.Pos, fn value, args []value) value {
	switch fn := fn.(type) {
	case *ssa.Function:
		if fn == nil {
			panic(runtimeErr("invalid memory address or nil pointer dereference (call of nil func)"))
		}
		return i.callSSA(caller, callpos, fn, args, nil)
	case *closure:
		return i.callSSA(caller, callpos, fn.Fn, args, fn.Env)
	case *ssa.Builtin:
		return i.callBuiltin(caller, fn, args)
	case *nativeFunc:
		return fn.fn(caller, args)
	}
	panic(fmt.Sprintf("cannot call %T", fn))
}

func (i *interpreter) callSSA(caller *frame, callpos token.Pos, fn *ssa.Function, args []value, env []value) value {
	fr := &frame{i: i, caller: caller, fn: fn}
	if caller != nil && caller.caller == nil {
		i.callEpoch++ // a call made by the harness function itself: one "operation" of the code under test
	}
	i.depth++
	defer func() { i.depth-- }()
	if i.depth > i.cfg.MaxDepth {
		i.abort(abortBudget, "call depth exceeded in "+fn.String())
	}
	if fn.Pkg != nil && fn.Name() == "init" && fn.Synthetic == "package initializer" {
		if i.directInit == fn {
			i.directInit = nil
		} else {
			path := fn.Pkg.Pkg.Path()
			if i.isModulePkg(fn.Pkg) || initAllow[path] {
				i.ensureInit(fn.Pkg)
			}
			return nil
		}
	}
	if fn.Parent() == nil {
		name := fn.String()
		if h := i.intercept(fn, name); h != nil {
			return h(fr, args)
		}
		if ext := externals[name]; ext != nil {
			return ext(fr, args)
		}
		if fn.Blocks == nil {
			i.abort(abortUnsupported, "no code for function: "+name)
		}
	}
	if fn.TypeParams().Len() > 0 && len(fn.TypeArgs()) == 0 {
		i.abort(abortUnsupported, "uninstantiated generic "+fn.String())
	}
	if i.callLog != nil {
		i.callLog[fn]++
	}
	fr.env = make(map[ssa.Value]value)
	fr.block = fn.Blocks[0]
	fr.locals = make([]value, len(fn.Locals))
	for k, l := range fn.Locals {
		fr.locals[k] = zero(deref(l.Type()))
		fr.env[l] = &fr.locals[k]
	}
	for k, p := range fn.Params {
		fr.env[p] = args[k]
	}
	for k, fv := range fn.FreeVars {
		fr.env[fv] = env[k]
	}
	for fr.block != nil {
		runFrame(fr)
	}
	return fr.result
}

func runFrame(fr *frame) {
	defer func() {
		if fr.block == nil {
			return // normal return
		}
		p := recover()
		if _, isAbort := p.(*abortSignal); isAbort {
			panic(p) // engine-level abort: unwind without running target defers
		}
		switch p.(type) {
		case targetPanic, runtimeErr:
		default:
			// interpreter-internal failure (Go runtime error in the engine, or an
			// explicit engine panic): surface as engine abort, never as a target panic
			fr.i.abortAt(fr, abortInternal, fmt.Sprint(p))
		}
		if fr.i.panicSite == "" {
			fr.i.panicSite = fr.fn.String()
			if fr.curInstr != nil {
				fr.i.panicSite += " @ " + fr.site(fr.curInstr.Pos())
			}
		}
		fr.panicking = true
		fr.panic = p
		fr.runDefers()
		fr.block = fr.fn.Recover
	}()

	for {
		nonPhis := executePhis(fr)
		for _, instr := range nonPhis {
			if visitInstr(fr, instr) == kReturn {
				return
			}
		}
	}
}

func executePhis(fr *frame) []ssa.Instruction {
	firstNonPhi := -1
	for i, instr := range fr.block.Instrs {
		if _, ok := instr.(*ssa.Phi); !ok {
			firstNonPhi = i
			break
		}
	}
	nonPhis := fr.block.Instrs[firstNonPhi:]
	if firstNonPhi > 0 {
		phis := fr.block.Instrs[:firstNonPhi]
		predIndex := slices.Index(fr.block.Preds, fr.prevBlock)
		fr.phitemps = fr.phitemps[:0]
		for _, phi := range phis {
			phi := phi.(*ssa.Phi)
			fr.phitemps = append(fr.phitemps, fr.get(phi.Edges[predIndex]))
		}
		for i, phi := range phis {
			fr.env[phi.(*ssa.Phi)] = fr.phitemps[i]
		}
	}
	return nonPhis
}

func doRecover(caller *frame) value {
	if caller != nil && !caller.panicking &&
		caller.caller != nil && caller.caller.panicking {
		caller.caller.panicking = false
		p := caller.caller.panic
		caller.caller.panic = nil
		caller.i.panicSite = ""
		switch p := p.(type) {
		case targetPanic:
			return p.v
		case error:
			return iface{caller.i.runtimeErrorString, p.Error()}
		case string:
			return iface{caller.i.runtimeErrorString, p}
		default:
			panic(fmt.Sprintf("unexpected panic type %T in target call to recover()", p))
		}
	}
	return iface{}
}
