package sx

import (
	"crypto/sha256"
	"fmt"
	"go/types"
	"strings"

	"golang.org/x/tools/go/ssa"
)

// In-engine file system, decoder stubs and fault / crash oracles.
//
// A file is either a byte vector (possibly symbolic bytes) or an opaque
// "document token": the bytes that yaml.Marshal / json.MarshalIndent would have
// produced for a value, modelled as a short vector of token bytes plus the
// deep-copied value. Unmarshal of a complete token yields a deep copy of the
// value (round-trip identity is the stated assumption); Unmarshal of a torn
// token (a strict prefix) or of garbage yields a decode error.

const (
	enoent = 2
	eio    = 5
	eacces = 13
	eisdir = 21
	enospc = 28
)

type docToken struct {
	broken string // JSON/YAML name of a field holding a wrongly typed value: decoding fills the rest, then fails
	id     int
	fmt    string // "yaml" | "json"
	obj    value
	size   int
}

type fsFile struct {
	data  []value
	doc   *docToken // non-nil: data is (a prefix of) this token's bytes
	isDir bool
}

type writePlan struct {
	mode int // 0 ok, 1 fail after k bytes (error returned), 2 crash after k bytes
	k    value
}

type crashSignal struct{ path string }

func (e *envModel) file(path string) *fsFile { return e.files[path] }

func (i *interpreter) errnoValue(n int) value {
	sp := i.prog.ImportedPackage("syscall")
	if sp == nil {
		i.abort(abortUnsupported, "syscall package not loaded")
	}
	return iface{t: sp.Type("Errno").Type(), v: uintptr(n)}
}

func (i *interpreter) pathError(op, path string, errno int) value {
	fsp := i.prog.ImportedPackage("io/fs")
	if fsp == nil {
		i.abort(abortUnsupported, "io/fs package not loaded")
	}
	pe := fsp.Type("PathError").Type()
	var cell value = structure{op, path, i.errnoValue(errno)}
	return iface{t: types.NewPointer(pe), v: &cell}
}

func pathArg(i *interpreter, v value) string {
	s, ok := v.(string)
	if !ok {
		i.abort(abortUnsupported, "symbolic file path")
	}
	return s
}

func (e *envModel) takeReadFault(path string) int {
	q := e.readFaults[path]
	if len(q) == 0 {
		return 0
	}
	f := q[0]
	e.readFaults[path] = q[1:]
	return f
}

var errnoText = map[uintptr]string{
	1: "operation not permitted", enoent: "no such file or directory", eio: "input/output error", eacces: "permission denied",
	17: "file exists", 20: "not a directory", eisdir: "is a directory", 22: "invalid argument", 27: "file too large", enospc: "no space left on device",
}

func init() {
	externals["(syscall.Errno).Error"] = func(fr *frame, a []value) value {
		n := a[0].(uintptr)
		if s, ok := errnoText[n]; ok {
			return s
		}
		return fmt.Sprintf("errno %d", n)
	}
	externals["os.ReadFile"] = func(fr *frame, a []value) value {
		i := fr.i
		e := i.env
		path := pathArg(i, a[0])
		e.fsLog = append(e.fsLog, "read "+path)
		e.reads[path]++
		if f := e.takeReadFault(path); f != 0 {
			return tuple{[]value(nil), i.pathError("open", path, f)}
		}
		fl := e.file(path)
		if fl == nil {
			return tuple{[]value(nil), i.pathError("open", path, enoent)}
		}
		if fl.isDir {
			return tuple{[]value(nil), i.pathError("read", path, eisdir)}
		}
		out := make([]value, len(fl.data), len(fl.data)+1)
		copy(out, fl.data)
		if fl.doc != nil {
			e.tokenOf[sliceKey(out)] = tokenRef{fl.doc, len(fl.data)}
		}
		return tuple{out, iface{}}
	}
	externals["os.WriteFile"] = func(fr *frame, a []value) value {
		i := fr.i
		e := i.env
		path := pathArg(i, a[0])
		data := a[1].([]value)
		e.fsLog = append(e.fsLog, "write "+path)
		e.writes[path]++
		if fl := e.file(path); fl != nil && fl.isDir {
			return i.pathError("open", path, eisdir)
		}
		var doc *docToken
		if tr, ok := e.tokenOf[sliceKey(data)]; ok && tr.n == len(data) {
			doc = tr.doc
		}
		// a write plan is a file-size limit in force for every write until verifFSWriteUnlimit
		// (natively: a process-wide RLIMIT_FSIZE); mode 2 kills the process at the first cut write
		plan := e.writePlans["*"]
		n := len(data)
		if len(plan) > 0 && plan[0].mode != 0 {
			// the write stops after k bytes, 0 <= k <= n; the file was truncated first
			// k >= n: the whole content fits before the event
			k := n
			if n > 0 {
				kt := i.term(plan[0].k)
				if !i.decide(i.st.SLe(i.st.BV(64, uint64(n)), kt), "write completes before the event") {
					if i.decide(i.st.SLt(kt, i.st.BV(64, 0)), "negative k") {
						k = 0
					} else {
						k = int(i.concInt(plan[0].k, 0, int64(n-1), "write stops after k bytes"))
					}
				}
			}
			nf := &fsFile{data: append([]value(nil), data[:k]...), doc: doc}
			e.files[path] = nf
			if k < n {
				if plan[0].mode == 2 {
					panic(targetPanic{iface{i.runtimeErrorString, "verif: process killed during write of " + path}})
				}
				return i.pathError("write", path, enospc)
			}
			return iface{}
		}
		e.files[path] = &fsFile{data: append([]value(nil), data...), doc: doc}
		return iface{}
	}
	externals["os.Rename"] = func(fr *frame, a []value) value {
		i := fr.i
		e := i.env
		from, to := pathArg(i, a[0]), pathArg(i, a[1])
		e.fsLog = append(e.fsLog, "rename "+from+" -> "+to)
		if f := e.takeReadFault("rename:" + from); f != 0 {
			return i.linkError("rename", from, to, f)
		}
		fl := e.file(from)
		if fl == nil {
			return i.linkError("rename", from, to, enoent)
		}
		e.files[to] = fl
		delete(e.files, from)
		return iface{}
	}
	externals["os.Remove"] = func(fr *frame, a []value) value {
		i := fr.i
		path := pathArg(i, a[0])
		if i.env.file(path) == nil {
			return i.pathError("remove", path, enoent)
		}
		delete(i.env.files, path)
		return iface{}
	}
	externals["os.MkdirAll"] = func(fr *frame, a []value) value {
		i := fr.i
		path := pathArg(i, a[0])
		if f := i.env.takeReadFault("mkdir:" + path); f != 0 {
			return i.pathError("mkdir", path, f)
		}
		return iface{}
	}
	externals["os.Stat"] = func(fr *frame, a []value) value {
		i := fr.i
		path := pathArg(i, a[0])
		i.env.fsLog = append(i.env.fsLog, "stat "+path)
		if f := i.env.takeReadFault("stat:" + path); f != 0 {
			return tuple{iface{}, i.pathError("stat", path, f)}
		}
		if i.env.file(path) == nil {
			return tuple{iface{}, i.pathError("stat", path, enoent)}
		}
		// a *os.fileStat carrying name, size and the directory bit
		fl := i.env.file(path)
		osp := i.prog.ImportedPackage("os")
		ft := osp.Type("fileStat").Type()
		var cell value = zero(ft)
		st := ft.Underlying().(*types.Struct)
		sv := cell.(structure)
		for k := 0; k < st.NumFields(); k++ {
			switch st.Field(k).Name() {
			case "size":
				sv[k] = int64(len(fl.data))
			case "name":
				sv[k] = path
			case "mode":
				if fl.isDir {
					sv[k] = uint32(1<<31 | 0o755)
				} else {
					sv[k] = uint32(0o644)
				}
			}
		}
		return tuple{iface{t: types.NewPointer(ft), v: &cell}, iface{}}
	}
	externals["os.UserHomeDir"] = func(fr *frame, a []value) value { return tuple{"/home/u", iface{}} }
	externals["os.UserConfigDir"] = func(fr *frame, a []value) value { return tuple{"/home/u/.config", iface{}} }
	externals["os.Getwd"] = func(fr *frame, a []value) value { return tuple{"/work", iface{}} }
	externals["os.Executable"] = func(fr *frame, a []value) value { return tuple{"/usr/local/bin/wtf", iface{}} }
	externals["os.Getenv"] = func(fr *frame, a []value) value { return fr.i.env.getenv(pathArg(fr.i, a[0])) }
	externals["os.LookupEnv"] = func(fr *frame, a []value) value {
		name := pathArg(fr.i, a[0])
		v, ok := fr.i.env.envVars[name]
		return tuple{v, ok}
	}
	harnessAPI["verifSetenv"] = func(fr *frame, a []value) value {
		// verifSetenv(name, value string): an environment variable of the process under test
		if fr.i.env.envVars == nil {
			fr.i.env.envVars = map[string]string{}
		}
		fr.i.env.envVars[a[0].(string)] = a[1].(string)
		return nil
	}

	// ---- decoders ----
	externals["gopkg.in/yaml.v3.Marshal"] = func(fr *frame, a []value) value {
		return tuple{fr.i.env.marshal("yaml", a[0]), iface{}}
	}
	externals["encoding/json.MarshalIndent"] = func(fr *frame, a []value) value {
		return tuple{fr.i.env.marshal("json", a[0]), iface{}}
	}
	externals["encoding/json.Marshal"] = func(fr *frame, a []value) value {
		return tuple{fr.i.env.marshal("json", a[0]), iface{}}
	}
	externals["gopkg.in/yaml.v3.Unmarshal"] = func(fr *frame, a []value) value {
		return fr.i.env.unmarshal(fr, "yaml", a[0].([]value), a[1])
	}
	externals["encoding/json.Unmarshal"] = func(fr *frame, a []value) value {
		return fr.i.env.unmarshal(fr, "json", a[0].([]value), a[1])
	}

	// ---- harness side ----
	harnessAPI["verifFSPutDoc"] = func(fr *frame, a []value) value {
		// verifFSPutDoc(path, format string, v any): a file holding the encoding of v
		e := fr.i.env
		path := pathArg(fr.i, a[0])
		data := e.marshal(a[1].(string), a[2])
		tr := e.tokenOf[sliceKey(data)]
		e.files[path] = &fsFile{data: data, doc: tr.doc}
		return nil
	}
	harnessAPI["verifFSPutDocBroken"] = func(fr *frame, a []value) value {
		// verifFSPutDocBroken(path, format, v, field): like PutDoc, but `field` holds a wrongly typed value
		e := fr.i.env
		path := pathArg(fr.i, a[0])
		data := e.marshal(a[1].(string), a[2])
		tr := e.tokenOf[sliceKey(data)]
		tr.doc.broken = a[3].(string)
		e.files[path] = &fsFile{data: data, doc: tr.doc}
		return nil
	}
	harnessAPI["verifFSPutBytes"] = func(fr *frame, a []value) value {
		e := fr.i.env
		e.files[pathArg(fr.i, a[0])] = &fsFile{data: append([]value(nil), a[1].([]value)...)}
		return nil
	}
	harnessAPI["verifFSPutGarbage"] = func(fr *frame, a []value) value {
		e := fr.i.env
		e.files[pathArg(fr.i, a[0])] = &fsFile{data: []value{uint8('{'), uint8('{'), uint8(':'), uint8(0xff)}}
		return nil
	}
	harnessAPI["verifFSMkdir"] = func(fr *frame, a []value) value {
		fr.i.env.files[pathArg(fr.i, a[0])] = &fsFile{isDir: true}
		return nil
	}
	harnessAPI["verifFSRemove"] = func(fr *frame, a []value) value {
		delete(fr.i.env.files, pathArg(fr.i, a[0]))
		return nil
	}
	harnessAPI["verifFSFaultRead"] = func(fr *frame, a []value) value {
		// verifFSFaultRead(path, errno, times): the next `times` reads of path fail
		e := fr.i.env
		path := pathArg(fr.i, a[0])
		for k := int64(0); k < asInt64(a[2]); k++ {
			e.readFaults[path] = append(e.readFaults[path], int(asInt64(a[1])))
		}
		return nil
	}
	harnessAPI["verifFSWritePlan"] = func(fr *frame, a []value) value {
		// verifFSWritePlan(path, mode, k): mode 0 ok, 1 fail after k bytes, 2 killed after k bytes
		e := fr.i.env
		path := pathArg(fr.i, a[0])
		_ = path
		e.writePlans["*"] = append(e.writePlans["*"], writePlan{int(asInt64(a[1])), a[2]})
		return nil
	}
	harnessAPI["verifFSWriteUnlimit"] = func(fr *frame, a []value) value {
		fr.i.env.writePlans["*"] = nil
		return nil
	}
	harnessAPI["verifFSExists"] = func(fr *frame, a []value) value {
		return fr.i.env.file(pathArg(fr.i, a[0])) != nil
	}
	harnessAPI["verifFSReads"] = func(fr *frame, a []value) value {
		return fr.i.env.reads[pathArg(fr.i, a[0])]
	}
	harnessAPI["verifFSWrites"] = func(fr *frame, a []value) value {
		return fr.i.env.writes[pathArg(fr.i, a[0])]
	}
	harnessAPI["verifFSRoot"] = func(fr *frame, a []value) value { return "/vfs" }
	harnessAPI["verifFSHome"] = func(fr *frame, a []value) value { return "/home/u" } // = the os.UserHomeDir stub
	harnessAPI["verifFSList"] = func(fr *frame, a []value) value {
		// names of files directly under dir, sorted
		dir := strings.TrimSuffix(pathArg(fr.i, a[0]), "/") + "/"
		var names []string
		for p := range fr.i.env.files {
			if strings.HasPrefix(p, dir) && !strings.Contains(p[len(dir):], "/") {
				names = append(names, p[len(dir):])
			}
		}
		sortStrings(names)
		out := make([]value, len(names))
		for k, n := range names {
			out[k] = n
		}
		return out
	}
}

func sortStrings(a []string) {
	for i := 1; i < len(a); i++ {
		for j := i; j > 0 && a[j] < a[j-1]; j-- {
			a[j], a[j-1] = a[j-1], a[j]
		}
	}
}

func (i *interpreter) linkError(op, from, to string, errno int) value {
	osp := i.prog.ImportedPackage("os")
	le := osp.Type("LinkError").Type()
	var cell value = structure{op, from, to, i.errnoValue(errno)}
	return iface{t: types.NewPointer(le), v: &cell}
}

type tokenRef struct {
	doc *docToken
	n   int // bytes of the token present in this slice
}

// sliceKey identifies a byte slice by the address of its backing array start.
func sliceKey(s []value) *value {
	if cap(s) == 0 {
		return nil
	}
	return &s[:1][0]
}

func (e *envModel) marshal(format string, v value) []value {
	e.nextDoc++
	obj := deepCopy(v)
	doc := &docToken{id: e.nextDoc, fmt: format, obj: obj, size: 4 + 2*docEntries(obj)}
	data := make([]value, doc.size, doc.size+1)
	tag := uint8('Y')
	if format == "json" {
		tag = 'J'
	}
	for k := range data {
		data[k] = uint8(0xC0 + k)
	}
	data[0], data[1] = tag, uint8(doc.id)
	e.tokenOf[sliceKey(data)] = tokenRef{doc, doc.size}
	e.docs = append(e.docs, doc)
	return data
}

// scanTokens recognises byte strings assembled by the code under test from complete document
// tokens (a copy of one document, or several documents written one after the other, separated
// by nothing or by line breaks). nil: the bytes are something else.
func (e *envModel) scanTokens(data []value) []*docToken {
	var out []*docToken
	p := 0
	for p < len(data) {
		c, ok := data[p].(uint8)
		if !ok {
			return nil
		}
		if c == '\n' && len(out) > 0 {
			p++
			continue
		}
		if (c != 'Y' && c != 'J') || p+1 >= len(data) {
			return nil
		}
		id, ok := data[p+1].(uint8)
		if !ok {
			return nil
		}
		var doc *docToken
		for k := len(e.docs) - 1; k >= 0; k-- {
			if uint8(e.docs[k].id) == id {
				doc = e.docs[k]
				break
			}
		}
		if doc == nil || p+doc.size > len(data) {
			return nil
		}
		for k := 2; k < doc.size; k++ {
			if b, ok := data[p+k].(uint8); !ok || b != uint8(0xC0+k) {
				return nil
			}
		}
		out = append(out, doc)
		p += doc.size
	}
	return out
}

// unmarshalConcat: several YAML documents' texts written one after the other. yaml.Marshal
// renders a non-empty list as a block sequence at column 0, so the concatenation of non-empty
// lists reads back as one list; an empty list is rendered "[]", after (or before) which a block
// sequence is a syntax error (when the empty list comes first, yaml.v3 reads it and ignores the
// rest - observed on the real decoder); anything that is not a list does not combine either.
func (e *envModel) unmarshalConcat(format string, toks []*docToken, target value, mkErr func(string) value) value {
	i := e.i
	if format != "yaml" {
		return mkErr("invalid character after top-level value")
	}
	it, ok := target.(iface)
	if !ok {
		return mkErr("yaml: Unmarshal(non-pointer)")
	}
	dst, ok := it.v.(*value)
	if !ok || dst == nil {
		return mkErr("yaml: Unmarshal(non-pointer)")
	}
	var all []value
	for k, d := range toks {
		src := d.obj
		var srcT types.Type
		if si, ok := src.(iface); ok {
			src, srcT = si.v, si.t
		}
		sl, ok := src.([]value)
		if ok && len(sl) == 0 && k == 0 && d.fmt == "yaml" && d.broken == "" {
			// "[]" followed by further text: yaml.v3 (observed) decodes the flow sequence and
			// ignores the rest without an error
			break
		}
		if !ok || len(sl) == 0 || d.fmt != "yaml" || d.broken != "" {
			return mkErr("yaml: line 2: could not find expected ':'")
		}
		var cp value = deepCopy(value(sl))
		if srcT != nil && !types.Identical(srcT, deref(it.t)) {
			mismatch := false
			cp = convertDecodedM(cp, srcT, deref(it.t), format, &mismatch)
			if mismatch {
				return e.typeError(format)
			}
		}
		all = append(all, cp.([]value)...)
	}
	e.decoded++
	i.assignDecodedFmt(dst, value(all), it.t, format)
	return iface{}
}

func (e *envModel) unmarshal(fr *frame, format string, data []value, target value) value {
	i := e.i
	mkErr := func(msg string) value {
		errPkg := i.prog.ImportedPackage("errors")
		t := errPkg.Type("errorString")
		var v value = structure{msg}
		return iface{t: types.NewPointer(t.Type()), v: &v}
	}
	tr, ok := e.tokenOf[sliceKey(data)]
	if !ok && len(data) > 0 {
		if toks := e.scanTokens(data); len(toks) == 1 {
			tr, ok = tokenRef{toks[0], toks[0].size}, true
		} else if len(toks) > 1 {
			return e.unmarshalConcat(format, toks, target, mkErr)
		}
	}
	if format == "yaml" && !ok && blankYAML(data) {
		// no YAML document at all (empty, blank or comment-only input): yaml.Unmarshal reports
		// no error and leaves the destination as it is
		return iface{}
	}
	if !ok || len(data) == 0 {
		// raw bytes: not a document the model can decode -> decode error
		if format == "yaml" {
			// the real decoder's messages quote parts of the document (a duplicated mapping key,
			// an unknown anchor, a scalar of the wrong type): the first double-quoted string of
			// concrete raw bytes is echoed in the error text
			if q := firstQuoted(data); q != "" {
				return mkErr("yaml: unmarshal errors:\n  line 4: mapping key \"" + q + "\" already defined at line 3")
			}
			return mkErr("yaml: line 1: did not find expected node content")
		}
		return mkErr("invalid character '{' looking for beginning of object key string")
	}
	if tr.n < tr.doc.size || len(data) < tr.doc.size || tr.doc.fmt != format {
		if format == "yaml" && tr.doc.fmt == format {
			// a YAML block sequence cut after k bytes either fails to parse or — at many cut
			// points — parses as the list of the entries that were completely written: both are
			// explored
			have := tr.n
			if len(data) < have {
				have = len(data)
			}
			src := tr.doc.obj
			if si, ok := src.(iface); ok {
				src = si.v
			}
			if sl, ok := src.([]value); ok && have >= 4 && i.choose(2, "torn YAML list: unparseable / parses as a shorter list") == 1 {
				m := (have - 4) / 2
				if m > len(sl) {
					m = len(sl)
				}
				if it, ok := target.(iface); ok {
					if dst, ok := it.v.(*value); ok && dst != nil {
						i.assignDecodedFmt(dst, deepCopy(value(sl[:m:m])), it.t, format)
						return iface{}
					}
				}
			}
			return mkErr("yaml: unmarshal errors: torn document")
		}
		if format == "yaml" {
			return mkErr("yaml: unmarshal errors: torn document")
		}
		return mkErr("unexpected end of JSON input")
	}
	it := target.(iface)
	dst, ok := it.v.(*value)
	if !ok || dst == nil {
		return mkErr(format + ": Unmarshal(non-pointer)")
	}
	src := tr.doc.obj
	// the encoded value may itself have been a pointer (json.MarshalIndent(sh, ...))
	var srcT types.Type
	if si, ok := src.(iface); ok {
		src, srcT = si.v, si.t
	}
	if sp, ok := src.(*value); ok && sp != nil {
		if _, dstIsPtr := (*dst).(*value); !dstIsPtr {
			src = *sp
			if srcT != nil {
				srcT = deref(srcT)
			}
		}
	}
	if srcT != nil && !types.Identical(srcT, deref(it.t)) {
		// written from one type, read into another (a "file format" struct): fields travel by
		// their document names; names the writer does not have come back as zero values
		mismatch := false
		src = convertDecodedM(deepCopy(src), srcT, deref(it.t), format, &mismatch)
		if mismatch {
			// the document has another shape than the destination (a mapping where a list is
			// expected, a scalar where a record is expected ...): the decoder fills what fits and
			// reports a type error
			i.assignDecodedFmt(dst, src, it.t, format)
			return e.typeError(format)
		}
	}
	e.decoded++
	if tr.doc.broken != "" {
		// a document that is syntactically fine but has one wrongly typed field: the decoder
		// fills every other field and then reports the error
		keep := fieldByTag(deref(it.t), *dst, tr.doc.broken)
		i.assignDecoded(dst, deepCopy(src), it.t)
		if keep.ok {
			(*dst).(structure)[keep.idx] = keep.val
		}
		return mkErr(format + ": cannot unmarshal string into Go struct field ." + tr.doc.broken)
	}
	i.assignDecodedFmt(dst, deepCopy(src), it.t, format)
	return iface{}
}

// docFieldName: the name a struct field has in a document of the given format ("-" = absent).
func docFieldName(st *types.Struct, k int, format string) string {
	tag := st.Tag(k)
	if p := strings.Index(tag, format+`:"`); p >= 0 {
		rest := tag[p+len(format)+2:]
		if e := strings.IndexByte(rest, '"'); e >= 0 {
			rest = rest[:e]
		}
		if c := strings.IndexByte(rest, ','); c >= 0 {
			rest = rest[:c]
		}
		if rest != "" {
			return rest
		}
	}
	if format == "yaml" {
		return strings.ToLower(st.Field(k).Name())
	}
	return st.Field(k).Name()
}

// typeError builds the decoder's "wrong shape" error: *yaml.TypeError / *json.UnmarshalTypeError.
func (e *envModel) typeError(format string) value {
	i := e.i
	pkg, typ := "gopkg.in/yaml.v3", "TypeError"
	if format == "json" {
		pkg, typ = "encoding/json", "UnmarshalTypeError"
	}
	if p := i.prog.ImportedPackage(pkg); p != nil {
		if t := p.Type(typ); t != nil {
			var cell value = zero(t.Type())
			if format == "yaml" {
				if sv, ok := cell.(structure); ok && len(sv) > 0 {
					sv[0] = []value{"line 1: cannot unmarshal into the destination type"}
				}
			}
			return iface{t: types.NewPointer(t.Type()), v: &cell}
		}
	}
	errPkg := i.prog.ImportedPackage("errors")
	var v value = structure{format + ": unmarshal errors: wrong shape"}
	return iface{t: types.NewPointer(errPkg.Type("errorString").Type()), v: &v}
}

func shapeOf(t types.Type) string {
	switch u := t.Underlying().(type) {
	case *types.Struct:
		return "record"
	case *types.Map:
		return "record"
	case *types.Slice, *types.Array:
		return "list"
	case *types.Pointer:
		return shapeOf(u.Elem())
	case *types.Interface:
		return "any"
	}
	return "scalar"
}

func convertDecoded(v value, from, to types.Type, format string) value {
	var m bool
	return convertDecodedM(v, from, to, format, &m)
}

// convertDecodedM re-shapes a decoded value from the writer's type to the reader's type;
// *mismatch is set when some part of the document has another shape than its destination.
func convertDecodedM(v value, from, to types.Type, format string, mismatch *bool) value {
	if a, b := shapeOf(from), shapeOf(to); a != b && a != "any" && b != "any" {
		*mismatch = true
		return zero(to)
	}
	switch tt := to.Underlying().(type) {
	case *types.Struct:
		ft, ok := from.Underlying().(*types.Struct)
		sv, ok2 := v.(structure)
		if !ok || !ok2 {
			return zero(to)
		}
		out := zero(to).(structure)
		for k := 0; k < tt.NumFields(); k++ {
			name := docFieldName(tt, k, format)
			if name == "-" {
				continue
			}
			for j := 0; j < ft.NumFields(); j++ {
				if docFieldName(ft, j, format) == name {
					out[k] = convertDecodedM(sv[j], ft.Field(j).Type(), tt.Field(k).Type(), format, mismatch)
				}
			}
		}
		return out
	case *types.Slice:
		ft, ok := from.Underlying().(*types.Slice)
		sl, ok2 := v.([]value)
		if !ok || !ok2 {
			return zero(to)
		}
		if sl == nil {
			return []value(nil)
		}
		out := make([]value, len(sl))
		for k := range sl {
			out[k] = convertDecodedM(sl[k], ft.Elem(), tt.Elem(), format, mismatch)
		}
		return out
	case *types.Pointer:
		if fp, ok := from.Underlying().(*types.Pointer); ok {
			if p, ok := v.(*value); ok && p != nil {
				c := convertDecodedM(*p, fp.Elem(), tt.Elem(), format, mismatch)
				return &c
			}
		}
		return zero(to)
	}
	if types.Identical(from.Underlying(), to.Underlying()) {
		return v
	}
	return zero(to)
}

// blankYAML: concrete bytes holding only white space and comment lines (no document).
// firstQuoted: the first "..." substring of concrete bytes ("" when there is none).
func firstQuoted(data []value) string {
	start := -1
	var out []byte
	for k, b := range data {
		c, ok := b.(uint8)
		if !ok {
			return ""
		}
		if c == '"' {
			if start >= 0 {
				return string(out)
			}
			start = k
			continue
		}
		if start >= 0 {
			out = append(out, c)
		}
	}
	return ""
}

func blankYAML(data []value) bool {
	inComment := false
	for _, b := range data {
		c, ok := b.(uint8)
		if !ok {
			return false
		}
		switch {
		case c == '\n':
			inComment = false
		case inComment:
		case c == '#':
			inComment = true
		case c == ' ' || c == '\t' || c == '\r':
		default:
			return false
		}
	}
	return true
}

// readerFile finds the model file behind a reader value: an *os.File of the model, or a
// *bufio.Reader (or anything with a single io.Reader field) wrapped around one.
func (i *interpreter) readerFile(r value, depth int) *openFile {
	if depth > 3 {
		return nil
	}
	if it, ok := r.(iface); ok {
		r = it.v
	}
	p, ok := r.(*value)
	if !ok || p == nil {
		return nil
	}
	if of := i.env.open[p]; of != nil {
		return of
	}
	if sv, ok := (*p).(structure); ok {
		for _, f := range sv {
			if it, ok := f.(iface); ok && it.t != nil {
				if of := i.readerFile(it, depth+1); of != nil {
					return of
				}
			}
		}
	}
	return nil
}

func init() {
	newDecoder := func(pkg, typ string) func(fr *frame, a []value) value {
		return func(fr *frame, a []value) value {
			i := fr.i
			dp := i.prog.ImportedPackage(pkg)
			if dp == nil {
				i.abort(abortUnsupported, pkg+" not loaded")
			}
			var cell value = zero(dp.Type(typ).Type())
			p := &cell
			i.env.decoders[p] = a[0]
			return p
		}
	}
	decode := func(format string) func(fr *frame, a []value) value {
		return func(fr *frame, a []value) value {
			i := fr.i
			e := i.env
			p, _ := a[0].(*value)
			of := i.readerFile(e.decoders[p], 0)
			if of == nil {
				i.abort(abortUnsupported, format+" Decoder over a reader that is not a model file")
			}
			if strings.HasSuffix(of.path, "/") {
				return i.pathError("read", of.path, eisdir)
			}
			from := of.pos
			if from > len(of.data) {
				from = len(of.data)
			}
			rest := of.data[from:]
			whole := of.pos == 0
			of.pos = len(of.data)
			if blankYAML(rest) || len(rest) == 0 {
				// a stream without a (further) document
				iop := i.prog.ImportedPackage("io")
				i.ensureInit(iop)
				return *i.shared[iop.Members["EOF"].(*ssa.Global)]
			}
			data := rest
			if fl := e.files[of.path]; whole && fl != nil && fl.doc != nil {
				// the reader delivers the file's bytes: the document identity goes with them
				data = append([]value(nil), rest...)
				e.tokenOf[sliceKey(data)] = tokenRef{fl.doc, len(fl.data)}
			}
			return e.unmarshal(fr, format, data, a[1])
		}
	}
	// Encoders: Encode(v) writes the canonical rendering of v (concrete values) followed by a
	// newline to the writer the encoder was built on
	encode := func(fr *frame, a []value) value {
		i := fr.i
		p, _ := a[0].(*value)
		w, ok := i.env.decoders[p].(iface)
		if !ok || w.t == nil {
			i.abort(abortUnsupported, "Encoder over an unknown writer")
		}
		var sb strings.Builder
		// (an encoder switched to indented output writes documents - as MarshalIndent, a token;
		// a plain encoder of a concrete value writes the canonical text - as Marshal, cache keys)
		if i.env.indented[p] || !canonRender(a[1], &sb) {
			// a value with symbolic parts: the document is an opaque token (as for Marshal),
			// followed by the line break Encode adds
			if wp, isPtr := w.v.(*value); isPtr && wp == nil {
				i.abort(abortUnsupported, "Encoder.Encode of a symbolic value to standard output")
			}
			if of := i.readerFile(w, 0); of != nil && (of.path == "/dev/stdout" || of.path == "/dev/stderr") {
				i.abort(abortUnsupported, "Encoder.Encode of a symbolic value to standard output")
			}
			m := i.prog.LookupMethod(w.t, nil, "Write")
			if m == nil {
				i.abort(abortUnsupported, "Encoder: writer without a Write method")
			}
			data := append(i.env.marshal("json", a[1]), uint8('\n'))
			res := i.call(fr, 0, m, []value{w.v, data})
			if t, ok := res.(tuple); ok && len(t) == 2 {
				return t[1]
			}
			return iface{}
		}
		sb.WriteString("\n")
		if wp, isPtr := w.v.(*value); isPtr && wp == nil {
			// os.Stdout / os.Stderr (package os is not initialised in the model: nil *os.File)
			i.stdout.WriteString(sb.String())
			return iface{}
		}
		if of := i.readerFile(w, 0); of != nil && (of.path == "/dev/stdout" || of.path == "/dev/stderr") {
			i.stdout.WriteString(sb.String())
			return iface{}
		}
		m := i.prog.LookupMethod(w.t, nil, "Write")
		if m == nil {
			i.abort(abortUnsupported, "Encoder: writer without a Write method")
		}
		data := make([]value, sb.Len())
		for k := 0; k < sb.Len(); k++ {
			data[k] = sb.String()[k]
		}
		res := i.call(fr, 0, m, []value{w.v, data})
		if t, ok := res.(tuple); ok && len(t) == 2 {
			return t[1]
		}
		return iface{}
	}
	externals["encoding/json.NewEncoder"] = newDecoder("encoding/json", "Encoder")
	externals["(*encoding/json.Encoder).Encode"] = encode
	externals["(*encoding/json.Encoder).SetIndent"] = func(fr *frame, a []value) value {
		if p, ok := a[0].(*value); ok {
			if fr.i.env.indented == nil {
				fr.i.env.indented = map[*value]bool{}
			}
			fr.i.env.indented[p] = true
		}
		return nil
	}
	externals["(*encoding/json.Encoder).SetEscapeHTML"] = func(fr *frame, a []value) value { return nil }
	externals["gopkg.in/yaml.v3.NewDecoder"] = newDecoder("gopkg.in/yaml.v3", "Decoder")
	externals["(*gopkg.in/yaml.v3.Decoder).Decode"] = decode("yaml")
	externals["encoding/json.NewDecoder"] = newDecoder("encoding/json", "Decoder")
	externals["(*encoding/json.Decoder).Decode"] = decode("json")
}

type keptField struct {
	ok  bool
	idx int
	val value
}

func fieldByTag(t types.Type, cur value, name string) keptField {
	st, ok := t.Underlying().(*types.Struct)
	sv, ok2 := cur.(structure)
	if !ok || !ok2 {
		return keptField{}
	}
	for k := 0; k < st.NumFields(); k++ {
		tag := st.Tag(k)
		if strings.Contains(tag, `"`+name+`"`) || strings.Contains(tag, `"`+name+`,`) || strings.EqualFold(st.Field(k).Name(), name) {
			return keptField{true, k, sv[k]}
		}
	}
	return keptField{}
}

// assignDecoded stores src into *dst the way a decoder does: fields tagged
// `yaml:"-"` / `json:"-"` are not part of the document, so at the top level
// they keep the destination's current value and in freshly created nested
// values they are zero.
func (i *interpreter) assignDecoded(dst *value, src value, ptrT types.Type) {
	i.assignDecodedFmt(dst, src, ptrT, "")
}

// assignDecodedFmt: as assignDecoded; additionally, for a known format, a top-level field
// tagged `,omitempty` whose encoded value was empty is absent from the document, so the
// destination keeps what it had (only concrete emptiness is recognised).
func (i *interpreter) assignDecodedFmt(dst *value, src value, ptrT types.Type, format string) {
	elemT := deref(ptrT)
	nv := clearSkipped(src, elemT)
	if st, ok := elemT.Underlying().(*types.Struct); ok {
		if cur, ok := (*dst).(structure); ok {
			if ns, ok := nv.(structure); ok {
				for k := 0; k < st.NumFields(); k++ {
					tag := st.Tag(k)
					if strings.Contains(tag, `yaml:"-"`) || strings.Contains(tag, `json:"-"`) {
						ns[k] = cur[k]
						continue
					}
					if format != "" && omitEmptyTag(tag, format) && concretelyEmpty(ns[k]) {
						ns[k] = cur[k]
						continue
					}
					// encoding/json decodes an array into the destination slice's existing backing
					// array: elements are reused without being zeroed, so fields the document omits
					// (omitempty) keep what the old element had
					if format == "json" {
						if oldSl, ok := cur[k].([]value); ok && cap(oldSl) > 0 {
							if newSl, ok := ns[k].([]value); ok {
								if et, ok := st.Field(k).Type().Underlying().(*types.Slice); ok {
									if est, ok := et.Elem().Underlying().(*types.Struct); ok {
										oldAll := oldSl[:cap(oldSl)]
										for e := 0; e < len(newSl) && e < len(oldAll); e++ {
											ne, ok1 := newSl[e].(structure)
											oe, ok2 := oldAll[e].(structure)
											if !ok1 || !ok2 {
												continue
											}
											for f := 0; f < est.NumFields(); f++ {
												if omitEmptyTag(est.Tag(f), format) && concretelyEmpty(ne[f]) {
													ne[f] = cloneVal(oe[f])
												}
											}
										}
									}
								}
							}
						}
					}
				}
			}
		}
	}
	*dst = nv
}

func omitEmptyTag(tag, format string) bool {
	k := strings.Index(tag, format+`:"`)
	if k < 0 {
		return false
	}
	rest := tag[k+len(format)+2:]
	if e := strings.IndexByte(rest, '"'); e >= 0 {
		rest = rest[:e]
	}
	return strings.Contains(rest, ",omitempty")
}

func concretelyEmpty(v value) bool {
	switch x := v.(type) {
	case nil:
		return true
	case []value:
		return len(x) == 0
	case *value:
		return x == nil
	case *smap:
		return x == nil || len(x.live()) == 0
	case string:
		return x == ""
	case bool:
		return !x
	case int:
		return x == 0
	case int64:
		return x == 0
	case float64:
		return x == 0
	}
	return false
}

// clearSkipped zeroes struct fields tagged `yaml:"-"` or `json:"-"` (they are
// not part of the encoded document, so a decoder leaves them at zero).
func clearSkipped(v value, t types.Type) value {
	switch tt := t.Underlying().(type) {
	case *types.Struct:
		sv, ok := v.(structure)
		if !ok {
			return v
		}
		out := make(structure, len(sv))
		for k := 0; k < tt.NumFields(); k++ {
			tag := tt.Tag(k)
			if strings.Contains(tag, `yaml:"-"`) || strings.Contains(tag, `json:"-"`) {
				out[k] = zero(tt.Field(k).Type())
			} else {
				out[k] = clearSkipped(sv[k], tt.Field(k).Type())
			}
		}
		return out
	case *types.Slice:
		sl, ok := v.([]value)
		if !ok {
			return v
		}
		out := make([]value, len(sl))
		for k := range sl {
			out[k] = clearSkipped(sl[k], tt.Elem())
		}
		if sl == nil {
			return []value(nil)
		}
		return out
	}
	return v
}

// deepCopy copies a value graph (structures, arrays, slices, pointers, maps).
func deepCopy(v value) value {
	switch x := v.(type) {
	case structure:
		out := make(structure, len(x))
		for k := range x {
			out[k] = deepCopy(x[k])
		}
		return out
	case array:
		out := make(array, len(x))
		for k := range x {
			out[k] = deepCopy(x[k])
		}
		return out
	case []value:
		if x == nil {
			return []value(nil)
		}
		out := make([]value, len(x))
		for k := range x {
			out[k] = deepCopy(x[k])
		}
		return out
	case *value:
		if x == nil {
			return x
		}
		c := deepCopy(*x)
		return &c
	case iface:
		return iface{t: x.t, v: deepCopy(x.v)}
	case *smap:
		if x == nil {
			return x
		}
		m := newSmap(x.keyT, x.elemT)
		for _, e := range x.live() {
			ne := &mapEntry{key: deepCopy(e.key), val: deepCopy(e.val)}
			m.entries = append(m.entries, ne)
			m.nlive++
			if hk, ok := hashKey(ne.key); ok {
				m.idx[hk] = ne
			} else if hasSym(ne.key) {
				m.nsymkey++
			}
		}
		return m
	}
	return v
}

// ---- canonical (injective) rendering of concrete values: json.Marshal of cache keys ----

func canonRender(v value, sb *strings.Builder) bool {
	switch x := v.(type) {
	case nil:
		sb.WriteString("nil")
	case bool, int, int8, int16, int32, int64, uint, uint8, uint16, uint32, uint64, uintptr, float32, float64:
		fmt.Fprintf(sb, "%T:%v", x, x)
	case string:
		fmt.Fprintf(sb, "%q", x)
	case *Sym, symstr:
		return false
	case structure:
		sb.WriteString("{")
		for _, e := range x {
			if !canonRender(e, sb) {
				return false
			}
			sb.WriteString(",")
		}
		sb.WriteString("}")
	case array:
		sb.WriteString("[")
		for _, e := range x {
			if !canonRender(e, sb) {
				return false
			}
			sb.WriteString(",")
		}
		sb.WriteString("]")
	case []value:
		if x == nil {
			sb.WriteString("null")
			break
		}
		sb.WriteString("[")
		for _, e := range x {
			if !canonRender(e, sb) {
				return false
			}
			sb.WriteString(",")
		}
		sb.WriteString("]")
	case iface:
		if x.t == nil {
			sb.WriteString("nil")
			break
		}
		sb.WriteString("(" + x.t.String() + ")")
		return canonRender(x.v, sb)
	case *value:
		if x == nil {
			sb.WriteString("nil")
			break
		}
		sb.WriteString("&")
		return canonRender(*x, sb)
	case *smap:
		if x == nil || x.len() == 0 {
			sb.WriteString("map[]") // json omitempty: nil and empty maps encode alike
			break
		}
		// sorted by rendered key, as encoding/json sorts map keys
		var items []string
		for _, e := range x.live() {
			var kb, vb strings.Builder
			if !canonRender(e.key, &kb) || !canonRender(e.val, &vb) {
				return false
			}
			items = append(items, kb.String()+":"+vb.String())
		}
		sortStrings(items)
		sb.WriteString("map[" + strings.Join(items, ",") + "]")
	default:
		return false
	}
	return true
}

func init() {
	externals["encoding/json.Marshal"] = func(fr *frame, a []value) value {
		var sb strings.Builder
		// symbolic booleans are decided here (a fork each) so that the rendering, and
		// with it the cache key, is a concrete injective function of the value
		a[0] = fr.i.decideBools(a[0])
		if canonRender(a[0], &sb) {
			s := sb.String()
			out := make([]value, len(s))
			for k := 0; k < len(s); k++ {
				out[k] = s[k]
			}
			return tuple{out, iface{}}
		}
		return tuple{fr.i.env.marshal("json", a[0]), iface{}}
	}
	externals["crypto/sha256.Sum256"] = func(fr *frame, a []value) value {
		data := a[0].([]value)
		bs := make([]byte, len(data))
		for k, b := range data {
			c, ok := b.(uint8)
			if !ok {
				fr.i.abort(abortUnsupported, "sha256 of symbolic bytes")
			}
			bs[k] = c
		}
		h := sha256.Sum256(bs)
		out := make(array, 32)
		for k := range h {
			out[k] = h[k]
		}
		return out
	}
}

// decideBools replaces symbolic booleans inside v by decided concrete ones.
func (i *interpreter) decideBools(v value) value {
	switch x := v.(type) {
	case *Sym:
		if x.K == types.Bool {
			return i.truth(x, "json.Marshal bool")
		}
		return v
	case structure:
		out := make(structure, len(x))
		for k := range x {
			out[k] = i.decideBools(x[k])
		}
		return out
	case iface:
		return iface{t: x.t, v: i.decideBools(x.v)}
	case *value:
		if x == nil {
			return v
		}
		c := i.decideBools(*x)
		return &c
	}
	return v
}

// ---- *os.File (read side) ----

type openFile struct {
	path     string
	data     []value
	pos      int
	writable bool
}

func (i *interpreter) fileObj(p value) *openFile {
	fp, ok := p.(*value)
	if !ok || fp == nil {
		panic(runtimeErr("invalid memory address or nil pointer dereference (*os.File)"))
	}
	of := i.env.open[fp]
	if of == nil {
		i.abort(abortUnsupported, "*os.File not created by the os.Open stub")
	}
	return of
}

func init() {
	externals["os.Open"] = func(fr *frame, a []value) value {
		i := fr.i
		e := i.env
		path := pathArg(i, a[0])
		e.reads[path]++
		osp := i.prog.ImportedPackage("os")
		nilFile := (*value)(nil)
		if f := e.takeReadFault(path); f != 0 {
			return tuple{nilFile, i.pathError("open", path, f)}
		}
		fl := e.file(path)
		if fl == nil {
			return tuple{nilFile, i.pathError("open", path, enoent)}
		}
		var cell value = zero(osp.Type("File").Type())
		fp := &cell
		if e.open == nil {
			e.open = map[*value]*openFile{}
		}
		of := &openFile{path: path, data: fl.data}
		if fl.isDir {
			of.data = nil
			of.path = path + "/" // marker: reads fail with EISDIR
		}
		e.open[fp] = of
		return tuple{fp, iface{}}
	}
	externals["(*os.File).Read"] = func(fr *frame, a []value) value {
		i := fr.i
		of := i.fileObj(a[0])
		buf := a[1].([]value)
		if strings.HasSuffix(of.path, "/") {
			return tuple{0, i.pathError("read", of.path, eisdir)}
		}
		if len(buf) == 0 {
			return tuple{0, iface{}}
		}
		if of.pos >= len(of.data) {
			iop := i.prog.ImportedPackage("io")
			i.ensureInit(iop)
			g := iop.Members["EOF"].(*ssa.Global)
			return tuple{0, *i.shared[g]}
		}
		n := copy(buf, of.data[of.pos:])
		of.pos += n
		return tuple{n, iface{}}
	}
	externals["(*os.File).Close"] = func(fr *frame, a []value) value { return iface{} }
	externals["(*os.File).Stat"] = func(fr *frame, a []value) value {
		i := fr.i
		of := i.fileObj(a[0])
		osp := i.prog.ImportedPackage("os")
		ft := osp.Type("fileStat").Type()
		var cell value = zero(ft)
		st := ft.Underlying().(*types.Struct)
		sv := cell.(structure)
		for k := 0; k < st.NumFields(); k++ {
			switch st.Field(k).Name() {
			case "size":
				sv[k] = int64(len(of.data))
			case "name":
				sv[k] = of.path
			}
		}
		return tuple{iface{t: types.NewPointer(ft), v: &cell}, iface{}}
	}
	harnessAPI["verifAllocBound"] = func(fr *frame, a []value) value {
		// verifAllocBound(n): from now on every allocation whose size is symbolic
		// (i.e. derives from input) must be <= n elements; violations are findings
		fr.i.allocBound = asInt64(a[0])
		fr.i.allocBoundSet = true
		fr.i.allocMsg = nameArg(a[1])
		return nil
	}
	harnessAPI["verifAllocCheck"] = func(fr *frame, a []value) value {
		fr.i.allocBoundSet = false
		return nil
	}
}

func init() {
	externals["os.ReadDir"] = func(fr *frame, a []value) value {
		i := fr.i
		e := i.env
		dir := strings.TrimSuffix(pathArg(i, a[0]), "/")
		if f := e.takeReadFault("readdir:" + dir); f != 0 {
			return tuple{[]value(nil), i.pathError("open", dir, f)}
		}
		var names []string
		seen := map[string]bool{}
		found := false
		for p := range e.files {
			if p == dir {
				found = true
			}
			if strings.HasPrefix(p, dir+"/") {
				found = true
				rest := p[len(dir)+1:]
				if k := strings.Index(rest, "/"); k >= 0 {
					rest = rest[:k]
				}
				if !seen[rest] {
					seen[rest] = true
					names = append(names, rest)
				}
			}
		}
		if !found {
			return tuple{[]value(nil), i.pathError("open", dir, enoent)}
		}
		sortStrings(names)
		osp := i.prog.ImportedPackage("os")
		dt := osp.Type("unixDirent")
		if dt == nil {
			i.abort(abortUnsupported, "os.unixDirent not available")
		}
		st := dt.Type().Underlying().(*types.Struct)
		out := make([]value, len(names))
		for k, n := range names {
			var cell value = zero(dt.Type())
			sv := cell.(structure)
			for f := 0; f < st.NumFields(); f++ {
				switch st.Field(f).Name() {
				case "name":
					sv[f] = n
				case "parent":
					sv[f] = dir
				}
			}
			out[k] = iface{t: types.NewPointer(dt.Type()), v: &cell}
		}
		return tuple{out, iface{}}
	}
}

// docEntries: number of top-level list entries of an encoded value (the list itself, or the
// first slice field of a struct / pointed-to struct), so that documents with fewer entries are shorter.
func docEntries(v value) int {
	switch x := v.(type) {
	case []value:
		return len(x)
	case iface:
		return docEntries(x.v)
	case *value:
		if x == nil {
			return 0
		}
		return docEntries(*x)
	case structure:
		for _, f := range x {
			if sl, ok := f.([]value); ok {
				return len(sl)
			}
		}
	}
	return 0
}

// ---- os.OpenFile and the write side of *os.File ----

const (
	oWRONLY = 0x1
	oRDWR   = 0x2
	oAPPEND = 0x400
	oCREATE = 0x40
	oEXCL   = 0x80
	oTRUNC  = 0x200
)

func init() {
	externals["os.OpenFile"] = func(fr *frame, a []value) value {
		i := fr.i
		e := i.env
		path := pathArg(i, a[0])
		flags := int(asInt64(a[1]))
		osp := i.prog.ImportedPackage("os")
		nilFile := (*value)(nil)
		fl := e.file(path)
		if fl != nil && fl.isDir {
			return tuple{nilFile, i.pathError("open", path, eisdir)}
		}
		if fl == nil {
			if flags&oCREATE == 0 {
				return tuple{nilFile, i.pathError("open", path, enoent)}
			}
			fl = &fsFile{}
			e.files[path] = fl
		} else if flags&oEXCL != 0 && flags&oCREATE != 0 {
			return tuple{nilFile, i.pathError("open", path, 17)}
		}
		if flags&oTRUNC != 0 {
			fl.data, fl.doc = nil, nil
		}
		var cell value = zero(osp.Type("File").Type())
		fp := &cell
		if e.open == nil {
			e.open = map[*value]*openFile{}
		}
		of := &openFile{path: path, data: fl.data, writable: flags&(oWRONLY|oRDWR) != 0}
		if flags&oAPPEND != 0 {
			of.pos = len(fl.data)
		}
		e.open[fp] = of
		e.writes[path]++
		return tuple{fp, iface{}}
	}
	write := func(fr *frame, a []value) value {
		i := fr.i
		e := i.env
		of := i.fileObj(a[0])
		var data []value
		if isStrVal(a[1]) {
			data = strBytes(a[1])
		} else {
			data = a[1].([]value)
		}
		if !of.writable {
			return tuple{0, i.pathError("write", of.path, 9)}
		}
		fl := e.file(of.path)
		if fl == nil {
			fl = &fsFile{}
			e.files[of.path] = fl
		}
		n := len(data)
		k := n
		plan := e.writePlans["*"]
		killed := false
		if len(plan) > 0 && plan[0].mode != 0 {
			// file-size limit L: bytes beyond offset L are not written
			room := n
			lt := i.term(plan[0].k)
			if !i.decide(i.st.SLe(i.st.BV(64, uint64(of.pos+n)), lt), "write fits under the size limit") {
				if i.decide(i.st.SLe(lt, i.st.BV(64, uint64(of.pos))), "size limit at or below the offset") {
					room = 0
				} else {
					room = int(i.concInt(plan[0].k, int64(of.pos), int64(of.pos+n-1), "size limit inside the write")) - of.pos
				}
			}
			k = room
			killed = plan[0].mode == 2 && k < n
		}
		// overwrite in place at pos, extending the file as needed
		nd := append([]value(nil), fl.data...)
		for len(nd) < of.pos {
			nd = append(nd, uint8(0))
		}
		for j := 0; j < k; j++ {
			if of.pos+j < len(nd) {
				nd[of.pos+j] = data[j]
			} else {
				nd = append(nd, data[j])
			}
		}
		// document identity survives only a complete, exactly-fitting write of one token
		var doc *docToken
		if tr, ok := e.tokenOf[sliceKey(data)]; ok && tr.n == n && of.pos == 0 && k == n && len(nd) == n {
			doc = tr.doc
		}
		fl.data, fl.doc = nd, doc
		of.pos += k
		of.data = nd
		if killed {
			panic(targetPanic{iface{i.runtimeErrorString, "verif: process killed during write of " + of.path}})
		}
		if k < n {
			return tuple{k, i.pathError("write", of.path, 27)}
		}
		return tuple{n, iface{}}
	}
	externals["(*os.File).Write"] = write
	externals["(*os.File).WriteString"] = write
	externals["(*os.File).Sync"] = func(fr *frame, a []value) value { return iface{} }
	externals["(*os.File).Name"] = func(fr *frame, a []value) value { return fr.i.fileObj(a[0]).path }
	externals["(*os.File).Chmod"] = func(fr *frame, a []value) value { return iface{} }
}
