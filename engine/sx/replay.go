package sx

import (
	"bytes"
	"context"
	"encoding/json"
	"fmt"
	"os"
	"os/exec"
	"path/filepath"
	"sort"
	"strings"
	"time"
)

// NativeRunner compiles harness files into the real package with
// `go test -overlay` (repo's own toolchain) and replays assignment vectors.
type NativeRunner struct {
	RepoDir    string
	HarnessDir string // /verif/harness
	RtDir      string // /verif/harness/rt
	tmp        string
	overlays   map[string]string // pkg rel -> overlay json path
	SweepName  string            // when set: the named input is swept over 0..SweepMax instead of taken from the vector
	SweepMax   int
	Skip       map[string]bool // harness files (pkg rel + "/" + base name) set aside because they no longer compile
}

func NewNativeRunner(repo, harnessDir string) (*NativeRunner, error) {
	tmp, err := os.MkdirTemp("", "verif-replay-")
	if err != nil {
		return nil, err
	}
	return &NativeRunner{RepoDir: repo, HarnessDir: harnessDir, RtDir: filepath.Join(harnessDir, "rt"), tmp: tmp,
		overlays: map[string]string{}}, nil
}

func (n *NativeRunner) Close() { os.RemoveAll(n.tmp) }

func pkgNameOf(rel string) string {
	parts := strings.Split(rel, "/")
	return parts[len(parts)-1]
}

// HarnessNames lists VerifHarness_* functions defined in the harness dir of pkg.
func HarnessNames(harnessDir, pkgRel string) ([]string, error) {
	return HarnessNamesSkipping(harnessDir, pkgRel, nil)
}

func HarnessNamesSkipping(harnessDir, pkgRel string, skip map[string]bool) ([]string, error) {
	ents, err := os.ReadDir(filepath.Join(harnessDir, pkgRel))
	if err != nil {
		return nil, err
	}
	var out []string
	for _, e := range ents {
		if !strings.HasSuffix(e.Name(), ".go") || skip[pkgRel+"/"+e.Name()] {
			continue
		}
		b, err := os.ReadFile(filepath.Join(harnessDir, pkgRel, e.Name()))
		if err != nil {
			return nil, err
		}
		for _, line := range strings.Split(string(b), "\n") {
			if strings.HasPrefix(line, "func VerifHarness_") {
				name := line[len("func "):]
				if k := strings.Index(name, "("); k > 0 {
					out = append(out, name[:k])
				}
			}
		}
	}
	sort.Strings(out)
	return out, nil
}

func (n *NativeRunner) overlayFor(pkgRel string) (string, error) {
	if p, ok := n.overlays[pkgRel]; ok {
		return p, nil
	}
	dir := filepath.Join(n.tmp, strings.ReplaceAll(pkgRel, "/", "_"))
	if err := os.MkdirAll(dir, 0o755); err != nil {
		return "", err
	}
	repl := map[string]string{}
	ents, err := os.ReadDir(filepath.Join(n.HarnessDir, pkgRel))
	if err != nil {
		return "", err
	}
	for _, e := range ents {
		if !strings.HasSuffix(e.Name(), ".go") {
			continue
		}
		if n.Skip[pkgRel+"/"+e.Name()] {
			continue
		}
		src := filepath.Join(n.HarnessDir, pkgRel, e.Name())
		repl[filepath.Join(n.RepoDir, pkgRel, e.Name())] = src
	}
	pkgName := pkgNameOf(pkgRel)
	rt, err := os.ReadFile(filepath.Join(n.RtDir, "rt_native.go.tmpl"))
	if err != nil {
		return "", err
	}
	rtPath := filepath.Join(dir, "zz_verif_rt.go")
	os.WriteFile(rtPath, []byte(strings.Replace(string(rt), "package PKG", "package "+pkgName, 1)), 0o644)
	repl[filepath.Join(n.RepoDir, pkgRel, "zz_verif_rt.go")] = rtPath
	names, err := HarnessNamesSkipping(n.HarnessDir, pkgRel, n.Skip)
	if err != nil {
		return "", err
	}
	var hs strings.Builder
	for _, h := range names {
		fmt.Fprintf(&hs, "\t%q: %s,\n", h, h)
	}
	tt, err := os.ReadFile(filepath.Join(n.RtDir, "replay_test.go.tmpl"))
	if err != nil {
		return "", err
	}
	ts := strings.Replace(string(tt), "package PKG", "package "+pkgName, 1)
	ts = strings.Replace(ts, "HARNESSES\n", hs.String(), 1)
	tPath := filepath.Join(dir, "zz_verif_replay_test.go")
	os.WriteFile(tPath, []byte(ts), 0o644)
	repl[filepath.Join(n.RepoDir, pkgRel, "zz_verif_replay_test.go")] = tPath
	ov, _ := json.Marshal(map[string]any{"Replace": repl})
	ovPath := filepath.Join(dir, "overlay.json")
	os.WriteFile(ovPath, ov, 0o644)
	n.overlays[pkgRel] = ovPath
	return ovPath, nil
}

type ReplayOutcome struct {
	Failed     bool
	Asserts    []string // failed assertion messages
	Panic      string
	AssumeFail bool
	OOM        bool
	Output     string
	Err        string
}

// Replay runs harness natively on the finding's vector. For findings that
// depend on a map iteration order the harness is repeated until it fails.
func (n *NativeRunner) Replay(pkgRel, harness string, vectorFile string, repeat int, synctest bool) ReplayOutcome {
	ov, err := n.overlayFor(pkgRel)
	if err != nil {
		return ReplayOutcome{Err: err.Error()}
	}
	ctx, cancel := context.WithTimeout(context.Background(), 10*time.Minute)
	defer cancel()
	// the test binary runs under an address-space limit: a counterexample that makes the
	// real code allocate by a header field must not take the machine down
	goBin := "go"
	for _, d := range strings.Split(func() string {
		if p := os.Getenv("VERIF_ORIG_PATH"); p != "" {
			return p
		}
		return os.Getenv("PATH")
	}(), ":") {
		if st, err := os.Stat(filepath.Join(d, "go")); err == nil && !st.IsDir() {
			goBin = filepath.Join(d, "go")
			break
		}
	}
	cmd := exec.CommandContext(ctx, goBin, "test", "-vet=off", "-count=1", "-overlay", ov,
		"-exec", "prlimit --as=6442450944", "-run", "^TestVerifReplay$", "-v", "./"+pkgRel)
	cmd.Dir = n.RepoDir
	env := []string{}
	for _, e := range os.Environ() {
		if strings.HasPrefix(e, "GOTOOLCHAIN=") || strings.HasPrefix(e, "GOFLAGS=") || strings.HasPrefix(e, "GOSUMDB=") || strings.HasPrefix(e, "PATH=") {
			continue
		}
		env = append(env, e)
	}
	origPath := os.Getenv("VERIF_ORIG_PATH")
	if origPath == "" {
		origPath = os.Getenv("PATH")
	}
	env = append(env, "PATH="+origPath, "GOFLAGS=-mod=mod", "GOPROXY=off", "VERIF_HARNESS="+harness, "VERIF_VECTOR="+vectorFile,
		fmt.Sprintf("VERIF_REPEAT=%d", repeat))
	if synctest {
		env = append(env, "VERIF_SYNCTEST=1")
	}
	if n.SweepName != "" {
		env = append(env, "VERIF_SWEEP_NAME="+n.SweepName, fmt.Sprintf("VERIF_SWEEP_MAX=%d", n.SweepMax))
	}
	cmd.Env = env
	var buf bytes.Buffer
	cmd.Stdout = &buf
	cmd.Stderr = &buf
	runErr := cmd.Run()
	out := buf.String()
	res := ReplayOutcome{Output: out}
	for _, line := range strings.Split(out, "\n") {
		line = strings.TrimSpace(line)
		switch {
		case strings.HasPrefix(line, "VERIF-ASSERT-FAIL: "):
			res.Asserts = append(res.Asserts, strings.TrimPrefix(line, "VERIF-ASSERT-FAIL: "))
		case strings.HasPrefix(line, "VERIF-PANIC: "):
			res.Panic = strings.TrimPrefix(line, "VERIF-PANIC: ")
		case line == "VERIF-ASSUME-FALSE":
			res.AssumeFail = true
		case strings.HasPrefix(line, "VERIF-REPLAY-FAILED"):
			res.Failed = true
		}
	}
	if strings.Contains(out, "out of memory") || strings.Contains(out, "cannot allocate memory") {
		res.OOM = true
		res.Failed = true
	}
	if !strings.Contains(out, "VERIF-REPLAY-") && !res.AssumeFail && !res.OOM {
		res.Err = fmt.Sprintf("native replay did not complete: %v\n%s", runErr, tail(out, 2000))
	}
	return res
}

func tail(s string, n int) string {
	if len(s) <= n {
		return s
	}
	return s[len(s)-n:]
}
