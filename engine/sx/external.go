package sx

import (
	"fmt"
	"go/types"
	"math"
	"strconv"
	"strings"
	"unicode"

	"golang.org/x/tools/go/ssa"
)

type externalFn func(fr *frame, args []value) value

var externals = map[string]externalFn{}

func init() {
	for k, v := range map[string]externalFn{
		"math.Abs":             extMathAbs,
		"math.Sqrt":            extMathSqrt,
		"math.sqrt":            extMathSqrt,
		"math.Log":             extMathLog,
		"math.log":             extMathLog,
		"math.Pow":             extMathPow,
		"math.pow":             extMathPow,
		"math.IsNaN":           extMathIsNaN,
		"math.IsInf":           extMathIsInf,
		"math.Float64bits":     extFloat64bits,
		"math.Float64frombits": extFloat64frombits,
		"math.Float32bits":     extFloat32bits,
		"math.Float32frombits": extFloat32frombits,
		"math.Inf":             func(fr *frame, a []value) value { return math.Inf(int(asInt64(a[0]))) },
		"math.NaN":             func(fr *frame, a []value) value { return math.NaN() },
		"math.Floor":           extMathUnaryConcrete(math.Floor, "math.Floor"),
		"math.floor":           extMathUnaryConcrete(math.Floor, "math.Floor"),
		"math.Ceil":            extMathUnaryConcrete(math.Ceil, "math.Ceil"),
		"math.ceil":            extMathUnaryConcrete(math.Ceil, "math.Ceil"),
		"math.Exp":             extMathUnaryConcrete(math.Exp, "math.Exp"),
		"math.Max":             extMathMax,
		"math.Min":             extMathMin,

		"strings.Index":                  extStringsIndex,
		"strings.Contains":               extStringsContains,
		"strings.IndexByte":              extStringsIndexByte,
		"strings.Count":                  extStringsCount,
		"strings.ToLower":                extStringsToLower,
		"strings.ToUpper":                extStringsToUpper,
		"strings.LastIndex":              extStringsLastIndex,
		"strings.Clone":                  func(fr *frame, a []value) value { return a[0] },
		"strings.HasPrefix":              extStringsHasPrefix,
		"strings.HasSuffix":              extStringsHasSuffix,
		"(*strings.Builder).String":      extBuilderString,
		"(*strings.Builder).WriteString": extBuilderWriteString,
		"(*strings.Builder).WriteByte":   extBuilderWriteByte,
		"(*strings.Builder).WriteRune":   extBuilderWriteRune,
		"(*strings.Builder).Write":       extBuilderWrite,
		"(*strings.Builder).Grow":        extBuilderGrow,
		"(*strings.Builder).Len":         extBuilderLen,
		"(*strings.Builder).Cap":         extBuilderCap,
		"(*strings.Builder).Reset":       extBuilderReset,
		"(*strings.Builder).copyCheck":   func(fr *frame, a []value) value { return nil },

		"internal/bytealg.IndexByteString": func(fr *frame, a []value) value {
			return fr.i.indexOf(strBytes(a[0]), []value{a[1]})
		},
		"internal/bytealg.IndexByte": func(fr *frame, a []value) value {
			return fr.i.indexOf(a[0].([]value), []value{a[1]})
		},
		"internal/bytealg.IndexString": func(fr *frame, a []value) value {
			return fr.i.indexOf(strBytes(a[0]), strBytes(a[1]))
		},
		"internal/bytealg.Index": func(fr *frame, a []value) value {
			return fr.i.indexOf(a[0].([]value), a[1].([]value))
		},
		"internal/bytealg.CountString": func(fr *frame, a []value) value {
			return fr.i.countOf(strBytes(a[0]), []value{a[1]})
		},
		"internal/bytealg.Count": func(fr *frame, a []value) value {
			return fr.i.countOf(a[0].([]value), []value{a[1]})
		},
		"internal/bytealg.Equal": func(fr *frame, a []value) value {
			return fr.i.val(fr.i.strEq(mkStr(a[0].([]value)), mkStr(a[1].([]value))), types.Bool)
		},
		"bytes.Equal": func(fr *frame, a []value) value {
			return fr.i.val(fr.i.strEq(mkStr(a[0].([]value)), mkStr(a[1].([]value))), types.Bool)
		},
		"internal/bytealg.MakeNoZero": func(fr *frame, a []value) value {
			n := asInt64(a[0])
			out := make([]value, n)
			for k := range out {
				out[k] = uint8(0)
			}
			return out
		},
		"internal/stringslite.Index":     extStringsIndex,
		"internal/stringslite.IndexByte": extStringsIndexByte,
		"internal/stringslite.HasPrefix": extStringsHasPrefix,
		"internal/stringslite.HasSuffix": extStringsHasSuffix,

		"unicode/utf8.DecodeRuneInString": func(fr *frame, a []value) value {
			b := strBytes(a[0])
			if len(b) == 0 {
				return tuple{int32(0xFFFD), 0}
			}
			r, n := fr.i.decodeRune(b)
			return tuple{r, n}
		},
		"unicode/utf8.DecodeRune": func(fr *frame, a []value) value {
			b := a[0].([]value)
			if len(b) == 0 {
				return tuple{int32(0xFFFD), 0}
			}
			r, n := fr.i.decodeRune(b)
			return tuple{r, n}
		},
		"unicode/utf8.DecodeLastRuneInString": func(fr *frame, a []value) value {
			r, n := fr.i.decodeLastRune(strBytes(a[0]))
			return tuple{r, n}
		},
		"unicode/utf8.DecodeLastRune": func(fr *frame, a []value) value {
			r, n := fr.i.decodeLastRune(a[0].([]value))
			return tuple{r, n}
		},
		"unicode/utf8.AppendRune": func(fr *frame, a []value) value {
			return append(a[0].([]value), fr.i.encodeRune(a[1])...)
		},
		"unicode/utf8.EncodeRune": func(fr *frame, a []value) value {
			enc := fr.i.encodeRune(a[1])
			dst := a[0].([]value)
			if len(dst) < len(enc) {
				panic(runtimeErr("index out of range (EncodeRune)"))
			}
			copy(dst, enc)
			return len(enc)
		},
		"unicode/utf8.RuneLen": func(fr *frame, a []value) value {
			if _, ok := a[0].(*Sym); ok {
				return len(fr.i.encodeRuneLenOnly(a[0]))
			}
			return extRuneLenConcrete(a[0].(int32))
		},
		"unicode/utf8.RuneCountInString": func(fr *frame, a []value) value {
			return fr.i.runeCount(strBytes(a[0]))
		},
		"unicode/utf8.RuneCount": func(fr *frame, a []value) value {
			return fr.i.runeCount(a[0].([]value))
		},
		"unicode/utf8.ValidString": func(fr *frame, a []value) value {
			return fr.i.validUTF8(strBytes(a[0]))
		},

		"unicode.IsLetter":  extUnicodeClass("IsLetter", unicode.IsLetter),
		"unicode.IsNumber":  extUnicodeClass("IsNumber", unicode.IsNumber),
		"unicode.IsDigit":   extUnicodeClass("IsDigit", unicode.IsDigit),
		"unicode.IsSpace":   extUnicodeClass("IsSpace", unicode.IsSpace),
		"unicode.IsControl": extUnicodeClass("IsControl", unicode.IsControl),
		"unicode.IsUpper":   extUnicodeClass("IsUpper", unicode.IsUpper),
		"unicode.IsLower":   extUnicodeClass("IsLower", unicode.IsLower),
		"unicode.IsPunct":   extUnicodeClass("IsPunct", unicode.IsPunct),
		"unicode.ToLower":   extUnicodeMap("ToLower", unicode.ToLower),
		"unicode.ToUpper":   extUnicodeMap("ToUpper", unicode.ToUpper),

		// float formatting: exact for concrete operands (the library code shifts float bits)
		"strconv.FormatFloat": func(fr *frame, a []value) value {
			f, ok := a[0].(float64)
			if !ok {
				fr.i.abort(abortUnsupported, "strconv.FormatFloat of a symbolic float")
			}
			return strconv.FormatFloat(f, byte(asInt64(a[1])), int(asInt64(a[2])), int(asInt64(a[3])))
		},
		"strconv.AppendFloat": func(fr *frame, a []value) value {
			f, ok := a[1].(float64)
			if !ok {
				fr.i.abort(abortUnsupported, "strconv.AppendFloat of a symbolic float")
			}
			out := append([]value(nil), a[0].([]value)...)
			for _, c := range []byte(strconv.FormatFloat(f, byte(asInt64(a[2])), int(asInt64(a[3])), int(asInt64(a[4])))) {
				out = append(out, c)
			}
			return out
		},

		"reflect.DeepEqual": func(fr *frame, a []value) value {
			return fr.i.deepEqual(a[0], a[1], 0)
		},

		"runtime.GOMAXPROCS": func(fr *frame, a []value) value { return 1 },
		"runtime.NumCPU":     func(fr *frame, a []value) value { return 1 },
		"runtime.Gosched":    func(fr *frame, a []value) value { return nil },
		"runtime.KeepAlive":  func(fr *frame, a []value) value { return nil },
		"runtime.GC":         func(fr *frame, a []value) value { return nil },
		// process statistics: the destination keeps its zero values (nothing decided here depends on them)
		"runtime.ReadMemStats": func(fr *frame, a []value) value { return nil },
		"runtime.NumGoroutine": func(fr *frame, a []value) value { return 1 },

		"fmt.Sprintf":  extOpaqueString("fmt.Sprintf"),
		"fmt.Sprint":   extOpaqueString("fmt.Sprint"),
		"fmt.Sprintln": extOpaqueString("fmt.Sprintln"),
		"fmt.Errorf":   extFmtErrorf,
		"fmt.Printf":   extPrint("fmt.Printf"),
		"fmt.Println":  extPrint("fmt.Println"),
		"fmt.Print":    extPrint("fmt.Print"),
		"fmt.Fprintf":  extNoopPrint,
		"fmt.Fprintln": extNoopPrint,
		"fmt.Fprint":   extNoopPrint,
		"log.Printf":   func(fr *frame, a []value) value { return nil },
		"log.Println":  func(fr *frame, a []value) value { return nil },
		"log.Print":    func(fr *frame, a []value) value { return nil },
	} {
		externals[k] = v
	}
}

// callBody runs the real SSA body of fn, bypassing externals.
func (i *interpreter) callBody(fr *frame, fn *ssa.Function, args []value) value {
	if fn.Blocks == nil {
		i.abort(abortUnsupported, "no code for function: "+fn.String())
	}
	nf := &frame{i: i, caller: fr.caller, fn: fn}
	nf.env = make(map[ssa.Value]value)
	nf.block = fn.Blocks[0]
	nf.locals = make([]value, len(fn.Locals))
	for k, l := range fn.Locals {
		nf.locals[k] = zero(deref(l.Type()))
		nf.env[l] = &nf.locals[k]
	}
	for k, p := range fn.Params {
		nf.env[p] = args[k]
	}
	if i.callLog != nil {
		i.callLog[fn]++
	}
	for nf.block != nil {
		runFrame(nf)
	}
	return nf.result
}

// ---- math ----

func symF(v value) (*Sym, bool) { s, ok := v.(*Sym); return s, ok }

func extMathAbs(fr *frame, a []value) value {
	if s, ok := symF(a[0]); ok {
		return fr.i.val(fr.i.st.FAbs(s.T), s.K)
	}
	return math.Abs(a[0].(float64))
}

func extMathSqrt(fr *frame, a []value) value {
	if s, ok := symF(a[0]); ok {
		return fr.i.val(fr.i.st.FSqrt(s.T), s.K)
	}
	return math.Sqrt(a[0].(float64))
}

func extMathIsNaN(fr *frame, a []value) value {
	if s, ok := symF(a[0]); ok {
		return fr.i.val(fr.i.st.FIsNaN(s.T), types.Bool)
	}
	return math.IsNaN(a[0].(float64))
}

func extMathIsInf(fr *frame, a []value) value {
	sign := asInt64(a[1])
	if s, ok := symF(a[0]); ok {
		st := fr.i.st
		inf := st.FIsInf(s.T)
		zero := st.F64(0)
		switch {
		case sign > 0:
			inf = st.And(inf, st.FLt(zero, s.T))
		case sign < 0:
			inf = st.And(inf, st.FLt(s.T, zero))
		}
		return fr.i.val(inf, types.Bool)
	}
	return math.IsInf(a[0].(float64), int(sign))
}

// math.Log: uninterpreted LOG with axioms instantiated at the call.
func extMathLog(fr *frame, a []value) value {
	s, ok := symF(a[0])
	if !ok {
		return math.Log(a[0].(float64))
	}
	i := fr.i
	st := i.st
	r := st.UF("LOG", SF64, s.T)
	one, zero := st.F64(1), st.F64(0)
	finitePos := st.And(st.FLt(zero, s.T), st.Not(st.FIsInf(s.T)))
	// x >= 1 => LOG(x) >= 0 ; 0 < x < 1 => LOG(x) < 0 ; finite x>0 => LOG finite, not NaN ; LOG(1) = 0
	i.assume(st.Implies(st.FLe(one, s.T), st.FLe(zero, r)))
	i.assume(st.Implies(st.And(st.FLt(zero, s.T), st.FLt(s.T, one)), st.FLt(r, zero)))
	i.assume(st.Implies(finitePos, st.And(st.Not(st.FIsNaN(r)), st.Not(st.FIsInf(r)))))
	i.assume(st.Implies(st.FEq(s.T, one), st.FEq(r, zero)))
	// monotone w.r.t. earlier instantiations
	for _, prev := range i.logPoints {
		i.assume(st.Implies(st.FLe(prev[0], s.T), st.FLe(prev[1], r)))
		i.assume(st.Implies(st.FLe(s.T, prev[0]), st.FLe(r, prev[1])))
	}
	i.logPoints = append(i.logPoints, [2]*Term{s.T, r})
	return i.val(r, types.Float64)
}

func extMathPow(fr *frame, a []value) value {
	_, s0 := symF(a[0])
	_, s1 := symF(a[1])
	if !s0 && !s1 {
		return math.Pow(a[0].(float64), a[1].(float64))
	}
	i := fr.i
	st := i.st
	x, y := i.term(a[0]), i.term(a[1])
	r := st.UF("POW", SF64, x, y)
	zero, one := st.F64(0), st.F64(1)
	// POW(x,0)=1 ; x>=1 ∧ y>=0 => POW>=1 ; x>=0 => POW>=0 (or NaN excluded for finite args)
	i.assume(st.Implies(st.FEq(y, zero), st.FEq(r, one)))
	i.assume(st.Implies(st.And(st.FLe(one, x), st.FLe(zero, y)), st.FLe(one, r)))
	i.assume(st.Implies(st.And(st.FLe(zero, x), st.Not(st.FIsNaN(y))), st.FLe(zero, r)))
	for _, prev := range i.powPoints {
		// same base, monotone in exponent for base >= 1
		i.assume(st.Implies(st.And(st.FEq(prev[0], x), st.And(st.FLe(one, x), st.FLe(prev[1], y))), st.FLe(prev[2], r)))
		i.assume(st.Implies(st.And(st.FEq(prev[0], x), st.And(st.FLe(one, x), st.FLe(y, prev[1]))), st.FLe(r, prev[2])))
	}
	i.powPoints = append(i.powPoints, [3]*Term{x, y, r})
	return i.val(r, types.Float64)
}

func extMathUnaryConcrete(f func(float64) float64, name string) externalFn {
	return func(fr *frame, a []value) value {
		if _, ok := symF(a[0]); ok {
			fr.i.abort(abortUnsupported, name+" on symbolic float")
		}
		return f(a[0].(float64))
	}
}

func extMathMax(fr *frame, a []value) value {
	_, s0 := symF(a[0])
	_, s1 := symF(a[1])
	if !s0 && !s1 {
		return math.Max(a[0].(float64), a[1].(float64))
	}
	st := fr.i.st
	x, y := fr.i.term(a[0]), fr.i.term(a[1])
	// ignoring signed-zero subtleties; NaN propagates
	r := st.Ite(st.Or(st.FIsNaN(x), st.FIsNaN(y)), st.F64(math.NaN()), st.Ite(st.FLt(x, y), y, x))
	return fr.i.val(r, types.Float64)
}

func extMathMin(fr *frame, a []value) value {
	_, s0 := symF(a[0])
	_, s1 := symF(a[1])
	if !s0 && !s1 {
		return math.Min(a[0].(float64), a[1].(float64))
	}
	st := fr.i.st
	x, y := fr.i.term(a[0]), fr.i.term(a[1])
	r := st.Ite(st.Or(st.FIsNaN(x), st.FIsNaN(y)), st.F64(math.NaN()), st.Ite(st.FLt(y, x), y, x))
	return fr.i.val(r, types.Float64)
}

func extFloat64bits(fr *frame, a []value) value {
	if sv, ok := symF(a[0]); ok {
		// uninterpreted BITS64(x): equal floats terms give equal bit terms (enough for
		// bit-identity comparisons of two computations); no other axiom is assumed
		return fr.i.val(fr.i.st.UF("BITS64", SBV64, sv.T), types.Uint64)
	}
	return math.Float64bits(a[0].(float64))
}

func extFloat32bits(fr *frame, a []value) value {
	if _, ok := symF(a[0]); ok {
		fr.i.abort(abortUnsupported, "math.Float32bits of symbolic float")
	}
	return math.Float32bits(a[0].(float32))
}

func extFloat64frombits(fr *frame, a []value) value {
	if s, ok := a[0].(*Sym); ok {
		return fr.i.val(fr.i.st.FOfBits(s.T), types.Float64)
	}
	return math.Float64frombits(a[0].(uint64))
}

func extFloat32frombits(fr *frame, a []value) value {
	if s, ok := a[0].(*Sym); ok {
		return fr.i.val(fr.i.st.FOfBits(s.T), types.Float32)
	}
	return math.Float32frombits(a[0].(uint32))
}

// ---- strings over possibly symbolic bytes ----

// matchAt returns the term "hay[p:p+len(needle)] == needle".
func (i *interpreter) matchAt(hay, needle []value, p int) *Term {
	s := i.st
	r := s.True
	for k := range needle {
		r = s.And(r, i.simp(s.Eq(i.term(hay[p+k]), i.term(needle[k]))))
		if r == s.False {
			break
		}
	}
	return r
}

// indexOf returns strings.Index(hay, needle) as an int value (ite-chain, no forks).
func (i *interpreter) indexOf(hay, needle []value) value {
	s := i.st
	n, m := len(hay), len(needle)
	if m == 0 {
		return 0
	}
	if m > n {
		return -1
	}
	r := s.BV(64, ^uint64(0)) // -1
	for p := n - m; p >= 0; p-- {
		r = s.Ite(i.matchAt(hay, needle, p), s.BV(64, uint64(p)), r)
	}
	return i.val(r, types.Int)
}

func (i *interpreter) lastIndexOf(hay, needle []value) value {
	s := i.st
	n, m := len(hay), len(needle)
	if m == 0 {
		return n
	}
	if m > n {
		return -1
	}
	r := s.BV(64, ^uint64(0))
	for p := 0; p <= n-m; p++ {
		r = s.Ite(i.matchAt(hay, needle, p), s.BV(64, uint64(p)), r)
	}
	return i.val(r, types.Int)
}

func (i *interpreter) containsTerm(hay, needle []value) *Term {
	s := i.st
	n, m := len(hay), len(needle)
	if m == 0 {
		return s.True
	}
	r := s.False
	for p := 0; p+m <= n; p++ {
		r = s.Or(r, i.matchAt(hay, needle, p))
		if r == s.True {
			break
		}
	}
	return r
}

// countOf counts non-overlapping occurrences (single-byte needles only are exact without forks).
func (i *interpreter) countOf(hay, needle []value) value {
	s := i.st
	if len(needle) == 0 {
		return i.runeCountPlus1(hay)
	}
	if len(needle) == 1 {
		r := s.BV(64, 0)
		for p := range hay {
			r = s.Add(r, s.Ite(i.simp(s.Eq(i.term(hay[p]), i.term(needle[0]))), s.BV(64, 1), s.BV(64, 0)))
		}
		return i.val(r, types.Int)
	}
	// general: sequential scan with decisions
	cnt := 0
	for p := 0; p+len(needle) <= len(hay); {
		if i.decide(i.matchAt(hay, needle, p), "strings.Count") {
			cnt++
			p += len(needle)
		} else {
			p++
		}
	}
	return cnt
}

func (i *interpreter) runeCountPlus1(b []value) value {
	n := i.runeCount(b)
	return i.binop(0+12, nil, n, 1) // token.ADD == 12
}

func (i *interpreter) runeCount(b []value) value {
	n := 0
	for k := 0; k < len(b); {
		_, sz := i.decodeRune(b[k:])
		k += sz
		n++
	}
	return n
}

func (i *interpreter) validUTF8(b []value) value {
	for k := 0; k < len(b); {
		r, sz := i.decodeRune(b[k:])
		if sz == 1 {
			// RuneError with size 1 means invalid
			if rc, ok := r.(int32); ok {
				if rc == 0xFFFD {
					return false
				}
			} else if i.decide(i.st.Eq(i.term(r), i.st.BV(32, 0xFFFD)), "utf8.Valid") {
				return false
			}
		}
		k += sz
	}
	return true
}

func (i *interpreter) encodeRuneLenOnly(r value) []value { return i.encodeRune(r) }

func extRuneLenConcrete(r int32) int {
	switch {
	case r < 0:
		return -1
	case r < 0x80:
		return 1
	case r < 0x800:
		return 2
	case 0xD800 <= r && r <= 0xDFFF:
		return -1
	case r < 0x10000:
		return 3
	case r <= 0x10FFFF:
		return 4
	}
	return -1
}

func bothConcrete(a ...value) bool {
	for _, v := range a {
		if _, ok := v.(string); !ok {
			return false
		}
	}
	return true
}

func extStringsIndex(fr *frame, a []value) value {
	if bothConcrete(a[0], a[1]) {
		return strings.Index(a[0].(string), a[1].(string))
	}
	return fr.i.indexOf(strBytes(a[0]), strBytes(a[1]))
}

func extStringsLastIndex(fr *frame, a []value) value {
	if bothConcrete(a[0], a[1]) {
		return strings.LastIndex(a[0].(string), a[1].(string))
	}
	return fr.i.lastIndexOf(strBytes(a[0]), strBytes(a[1]))
}

func extStringsContains(fr *frame, a []value) value {
	if bothConcrete(a[0], a[1]) {
		return strings.Contains(a[0].(string), a[1].(string))
	}
	return fr.i.val(fr.i.containsTerm(strBytes(a[0]), strBytes(a[1])), types.Bool)
}

func extStringsHasPrefix(fr *frame, a []value) value {
	if bothConcrete(a[0], a[1]) {
		return strings.HasPrefix(a[0].(string), a[1].(string))
	}
	h, n := strBytes(a[0]), strBytes(a[1])
	if len(n) > len(h) {
		return false
	}
	return fr.i.val(fr.i.matchAt(h, n, 0), types.Bool)
}

func extStringsHasSuffix(fr *frame, a []value) value {
	if bothConcrete(a[0], a[1]) {
		return strings.HasSuffix(a[0].(string), a[1].(string))
	}
	h, n := strBytes(a[0]), strBytes(a[1])
	if len(n) > len(h) {
		return false
	}
	return fr.i.val(fr.i.matchAt(h, n, len(h)-len(n)), types.Bool)
}

func extStringsIndexByte(fr *frame, a []value) value {
	if s, ok := a[0].(string); ok {
		if c, ok := a[1].(uint8); ok {
			return strings.IndexByte(s, c)
		}
	}
	return fr.i.indexOf(strBytes(a[0]), []value{a[1]})
}

func extStringsCount(fr *frame, a []value) value {
	if bothConcrete(a[0], a[1]) {
		return strings.Count(a[0].(string), a[1].(string))
	}
	return fr.i.countOf(strBytes(a[0]), strBytes(a[1]))
}

// caseMap applies ASCII case mapping byte-wise when all bytes are ASCII
// (deciding ASCII-ness per symbolic byte); otherwise runs the real body.
func caseMap(fr *frame, a []value, lower bool, name string) value {
	i := fr.i
	if s, ok := a[0].(string); ok {
		if lower {
			return strings.ToLower(s)
		}
		return strings.ToUpper(s)
	}
	b := strBytes(a[0])
	for _, c := range b {
		if !i.byteIn(c, 0, 0x7f, name+":ascii") {
			i.nonASCII++
			fn := i.prog.ImportedPackage("strings").Func(name)
			return i.callBody(fr, fn, a)
		}
	}
	st := i.st
	out := make([]value, len(b))
	for k, c := range b {
		if cc, ok := c.(uint8); ok {
			if lower && 'A' <= cc && cc <= 'Z' {
				cc += 'a' - 'A'
			} else if !lower && 'a' <= cc && cc <= 'z' {
				cc -= 'a' - 'A'
			}
			out[k] = cc
			continue
		}
		t := i.term(c)
		var in *Term
		var mapped *Term
		if lower {
			in = st.And(st.ULe(st.BV(8, 'A'), t), st.ULe(t, st.BV(8, 'Z')))
			mapped = st.Add(t, st.BV(8, 32))
		} else {
			in = st.And(st.ULe(st.BV(8, 'a'), t), st.ULe(t, st.BV(8, 'z')))
			mapped = st.Sub(t, st.BV(8, 32))
		}
		out[k] = i.val(st.Ite(i.simp(in), mapped, t), types.Uint8)
	}
	return mkStr(out)
}

func extStringsToLower(fr *frame, a []value) value { return caseMap(fr, a, true, "ToLower") }
func extStringsToUpper(fr *frame, a []value) value { return caseMap(fr, a, false, "ToUpper") }

// ---- strings.Builder: field 1 is buf []byte ----

func builderBuf(a value) *value {
	p := a.(*value)
	if p == nil {
		panic(runtimeErr("nil *strings.Builder"))
	}
	st := (*p).(structure)
	return &st[1]
}

func extBuilderString(fr *frame, a []value) value {
	buf := *builderBuf(a[0])
	b, _ := buf.([]value)
	return mkStr(b)
}

func extBuilderWriteString(fr *frame, a []value) value {
	bp := builderBuf(a[0])
	b, _ := (*bp).([]value)
	sb := strBytes(a[1])
	*bp = append(b, sb...)
	return tuple{len(sb), iface{}}
}

func extBuilderWrite(fr *frame, a []value) value {
	bp := builderBuf(a[0])
	b, _ := (*bp).([]value)
	sb := a[1].([]value)
	*bp = append(b, sb...)
	return tuple{len(sb), iface{}}
}

func extBuilderWriteByte(fr *frame, a []value) value {
	bp := builderBuf(a[0])
	b, _ := (*bp).([]value)
	*bp = append(b, a[1])
	return iface{}
}

func extBuilderWriteRune(fr *frame, a []value) value {
	bp := builderBuf(a[0])
	b, _ := (*bp).([]value)
	enc := fr.i.encodeRune(a[1])
	*bp = append(b, enc...)
	return tuple{len(enc), iface{}}
}

func extBuilderLen(fr *frame, a []value) value {
	b, _ := (*builderBuf(a[0])).([]value)
	return len(b)
}

func extBuilderCap(fr *frame, a []value) value {
	b, _ := (*builderBuf(a[0])).([]value)
	return cap(b)
}

func extBuilderGrow(fr *frame, a []value) value {
	n := asInt64(a[1])
	if n < 0 {
		panic(targetPanic{iface{fr.i.runtimeErrorString, "strings.Builder.Grow: negative count"}})
	}
	bp := builderBuf(a[0])
	b, _ := (*bp).([]value)
	if int64(cap(b)-len(b)) < n {
		nb := make([]value, len(b), 2*cap(b)+int(n))
		copy(nb, b)
		*bp = nb
	}
	return nil
}

func extBuilderReset(fr *frame, a []value) value {
	*builderBuf(a[0]) = []value(nil)
	return nil
}

// ---- unicode classes: exact formula below 0x80, real body above ----

func extUnicodeClass(name string, f func(rune) bool) externalFn {
	// precompute ASCII ranges where f is true
	type rng struct{ lo, hi uint64 }
	var rs []rng
	for c := 0; c < 0x80; c++ {
		if f(rune(c)) {
			if len(rs) > 0 && rs[len(rs)-1].hi == uint64(c-1) {
				rs[len(rs)-1].hi = uint64(c)
			} else {
				rs = append(rs, rng{uint64(c), uint64(c)})
			}
		}
	}
	return func(fr *frame, a []value) value {
		i := fr.i
		if r, ok := a[0].(int32); ok {
			return f(r)
		}
		s := i.st
		t := i.term(a[0])
		if i.decide(s.ULt(t, s.BV(32, 0x80)), "unicode."+name+":ascii") {
			res := s.False
			for _, r := range rs {
				if r.lo == r.hi {
					res = s.Or(res, s.Eq(t, s.BV(32, r.lo)))
				} else {
					res = s.Or(res, s.And(s.ULe(s.BV(32, r.lo), t), s.ULe(t, s.BV(32, r.hi))))
				}
			}
			return i.val(res, types.Bool)
		}
		i.nonASCII++
		fn := i.prog.ImportedPackage("unicode").Func(name)
		return i.callBody(fr, fn, a)
	}
}

func extUnicodeMap(name string, f func(rune) rune) externalFn {
	return func(fr *frame, a []value) value {
		i := fr.i
		if r, ok := a[0].(int32); ok {
			return f(r)
		}
		s := i.st
		t := i.term(a[0])
		if i.decide(s.ULt(t, s.BV(32, 0x80)), "unicode."+name+":ascii") {
			var in, mapped *Term
			if name == "ToLower" {
				in = s.And(s.ULe(s.BV(32, 'A'), t), s.ULe(t, s.BV(32, 'Z')))
				mapped = s.Add(t, s.BV(32, 32))
			} else {
				in = s.And(s.ULe(s.BV(32, 'a'), t), s.ULe(t, s.BV(32, 'z')))
				mapped = s.Sub(t, s.BV(32, 32))
			}
			return i.val(s.Ite(in, mapped, t), types.Int32)
		}
		i.nonASCII++
		fn := i.prog.ImportedPackage("unicode").Func(name)
		return i.callBody(fr, fn, a)
	}
}

// ---- fmt: opaque ----

// nativeArgs converts variadic ...any arguments to Go values when they are all
// concrete basic values (or errors / Stringers rendered through their method).
func nativeArgs(fr *frame, args []value) ([]any, bool) {
	out := make([]any, 0, len(args))
	for _, x := range args {
		it, ok := x.(iface)
		if !ok {
			return nil, false
		}
		if it.t == nil {
			out = append(out, nil)
			continue
		}
		v := it.v
		if sv, isSym := v.(*Sym); isSym && sv.K == types.Bool {
			v = fr.i.truth(sv, "fmt bool operand")
		}
		switch c := v.(type) {
		case bool, int, int8, int16, int32, int64, uint, uint8, uint16, uint32, uint64, uintptr, float32, float64, string:
			if named, isNamed := it.t.(*types.Named); isNamed {
				// a named type with an Error/String method formats through it
				if m := methodOf(fr.i, named, "Error"); m != nil {
					out = append(out, fr.i.call(fr, 0, m, []value{v}))
					continue
				}
				if m := methodOf(fr.i, named, "String"); m != nil && m.Signature.Params().Len() == 0 {
					out = append(out, fr.i.call(fr, 0, m, []value{v}))
					continue
				}
			}
			out = append(out, c)
		default:
			if types.Implements(it.t, errorIface()) {
				if m := methodOf(fr.i, it.t, "Error"); m != nil {
					r := fr.i.call(fr, 0, m, []value{v})
					if s, ok := r.(string); ok {
						out = append(out, stringError(s))
						continue
					}
				}
			}
			return nil, false
		}
	}
	return out, true
}

type stringError string

func (e stringError) Error() string { return string(e) }

func extOpaqueString(name string) externalFn {
	return func(fr *frame, a []value) value {
		// exact when every operand is a concrete basic value
		switch name {
		case "fmt.Sprintf", "fmt.Errorf":
			if format, ok := a[0].(string); ok {
				if va, ok := a[1].([]value); ok || a[1] == nil {
					if na, ok := nativeArgs(fr, va); ok {
						return fmt.Sprintf(strings.ReplaceAll(format, "%w", "%v"), na...)
					}
				}
			}
		case "fmt.Sprint":
			if va, ok := a[0].([]value); ok {
				if na, ok := nativeArgs(fr, va); ok {
					return fmt.Sprint(na...)
				}
			}
		}
		fr.i.opaqueStrings++
		// deterministic opaque rendering that keeps concrete operands visible
		var sb strings.Builder
		sb.WriteString("<" + name)
		for _, x := range a {
			sb.WriteString(" ")
			sb.WriteString(shortRender(x))
		}
		sb.WriteString(">")
		return sb.String()
	}
}

func shortRender(x value) string {
	switch x := x.(type) {
	case string:
		return x
	case []value:
		var parts []string
		for _, e := range x {
			parts = append(parts, shortRender(e))
		}
		return "[" + strings.Join(parts, " ") + "]"
	case iface:
		return shortRender(x.v)
	case *value:
		return "&"
	case *Sym, symstr:
		return "?"
	case nil:
		return "nil"
	}
	s := toString(x)
	if len(s) > 40 {
		s = s[:40]
	}
	return s
}

// extPrint: standard output is kept per path (for verifCaptureStdout); text with a symbolic
// operand is recorded as U+FFFD followed by the opaque rendering.
func extPrint(name string) externalFn {
	return func(fr *frame, a []value) value {
		i := fr.i
		i.prints++
		text, exact := "", false
		switch name {
		case "fmt.Printf":
			if format, ok := a[0].(string); ok {
				if va, ok := a[1].([]value); ok || a[1] == nil {
					if na, ok := nativeArgs(fr, va); ok {
						text, exact = fmt.Sprintf(format, na...), true
					}
				}
			}
		case "fmt.Println", "fmt.Print":
			if va, ok := a[0].([]value); ok || a[0] == nil {
				if na, ok := nativeArgs(fr, va); ok {
					if name == "fmt.Println" {
						text, exact = fmt.Sprintln(na...), true
					} else {
						text, exact = fmt.Sprint(na...), true
					}
				}
			}
		}
		if !exact {
			i.stdoutOpaque++
			text = "\uFFFD" + extOpaqueString(name)(fr, a).(string) + "\n"
		}
		i.stdout.WriteString(text)
		if fr.fn.Signature.Results().Len() == 2 {
			return tuple{len(text), iface{}}
		}
		return nil
	}
}

func extNoopPrint(fr *frame, a []value) value {
	fr.i.prints++
	sig := fr.fn.Signature
	if sig.Results().Len() == 2 {
		return tuple{0, iface{}}
	}
	return nil
}

// fmt.Errorf: build a *fmt.wrapError / *errors.errorString-like value. We use
// errors.New on an opaque message, and keep %w operands reachable through a
// synthetic wrapper when present.
func extFmtErrorf(fr *frame, a []value) value {
	i := fr.i
	format, _ := a[0].(string)
	msg := extOpaqueString("fmt.Errorf")(fr, a).(string)
	var wrapped value
	if strings.Contains(format, "%w") {
		for _, x := range a[1].([]value) {
			if it, ok := x.(iface); ok && it.t != nil {
				if types.Implements(it.t, errorIface()) {
					wrapped = it
				}
			}
		}
	}
	fmtPkg := i.prog.ImportedPackage("fmt")
	if wrapped != nil && fmtPkg != nil {
		if t := fmtPkg.Type("wrapError"); t != nil {
			var v value = structure{msg, wrapped}
			return iface{t: types.NewPointer(t.Type()), v: &v}
		}
	}
	errPkg := i.prog.ImportedPackage("errors")
	t := errPkg.Type("errorString")
	var v value = structure{msg}
	return iface{t: types.NewPointer(t.Type()), v: &v}
}

func errorIface() *types.Interface {
	return types.Universe.Lookup("error").Type().Underlying().(*types.Interface)
}

var _ = fmt.Sprint

// deepEqual: reflect.DeepEqual on engine values (symbolic scalars are compared by a decision).
func (i *interpreter) deepEqual(x, y value, depth int) bool {
	if depth > 50 {
		i.abort(abortUnsupported, "reflect.DeepEqual: structure too deep")
	}
	switch a := x.(type) {
	case iface:
		b, ok := y.(iface)
		if !ok {
			return false
		}
		if a.t == nil || b.t == nil {
			return a.t == nil && b.t == nil
		}
		if !types.Identical(a.t, b.t) {
			return false
		}
		return i.deepEqual(a.v, b.v, depth+1)
	case structure:
		b, ok := y.(structure)
		if !ok || len(a) != len(b) {
			return false
		}
		for k := range a {
			if !i.deepEqual(a[k], b[k], depth+1) {
				return false
			}
		}
		return true
	case array:
		b, ok := y.(array)
		if !ok || len(a) != len(b) {
			return false
		}
		for k := range a {
			if !i.deepEqual(a[k], b[k], depth+1) {
				return false
			}
		}
		return true
	case []value:
		b, ok := y.([]value)
		if !ok || (a == nil) != (b == nil) || len(a) != len(b) {
			return false
		}
		for k := range a {
			if !i.deepEqual(a[k], b[k], depth+1) {
				return false
			}
		}
		return true
	case *value:
		b, ok := y.(*value)
		if !ok {
			return false
		}
		if a == b {
			return true
		}
		if a == nil || b == nil {
			return false
		}
		return i.deepEqual(*a, *b, depth+1)
	case *smap:
		b, ok := y.(*smap)
		if !ok {
			return false
		}
		if a == b {
			return true
		}
		if (a == nil) != (b == nil) || a.len() != b.len() {
			return false
		}
		for _, e := range a.live() {
			found := false
			for _, f := range b.live() {
				if i.deepEqual(e.key, f.key, depth+1) {
					found = true
					if !i.deepEqual(e.val, f.val, depth+1) {
						return false
					}
				}
			}
			if !found {
				return false
			}
		}
		return true
	case nil:
		return y == nil
	}
	if isStrVal(x) && isStrVal(y) {
		return i.decide(i.eqTerm(nil, x, y), "reflect.DeepEqual (strings)")
	}
	if _, ok := x.(*Sym); ok {
		return i.decide(i.eqTerm(nil, x, y), "reflect.DeepEqual")
	}
	if _, ok := y.(*Sym); ok {
		return i.decide(i.eqTerm(nil, x, y), "reflect.DeepEqual")
	}
	return x == y
}
