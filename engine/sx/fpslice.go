package sx

import (
	"fmt"
	"os"
	"sort"
	"strconv"
	"strings"
	"sync"
	"time"
)

// Independence slicing + caching for queries that involve floating point.
//
// A query "PC ∧ c" is answered from the sub-conjunction of PC that shares
// variables (transitively) with c; the rest of the PC is satisfiable by the
// executor's invariant, so sat/unsat is unchanged. The slice is rendered with
// canonical variable names, which makes structurally identical obligations
// from different paths and workers hit one cache entry.

func termVars(t *Term) []int {
	if t.varsDone {
		return t.vars
	}
	set := map[int]bool{}
	seen := map[int]bool{}
	var rec func(t *Term)
	rec = func(t *Term) {
		if t.Op == OpConst || seen[t.ID] {
			return
		}
		seen[t.ID] = true
		if t.varsDone {
			for _, v := range t.vars {
				set[v] = true
			}
			return
		}
		if t.Op == OpVar {
			set[t.ID] = true
			return
		}
		for _, a := range t.Args {
			rec(a)
		}
	}
	rec(t)
	vs := make([]int, 0, len(set))
	for v := range set {
		vs = append(vs, v)
	}
	sort.Ints(vs)
	t.vars = vs
	t.varsDone = true
	return vs
}

// sliceFor returns the PC constraints connected to c through shared variables.
func (i *interpreter) sliceFor(c *Term) ([]*Term, bool) {
	in := map[int]bool{}
	for _, v := range termVars(c) {
		in[v] = true
	}
	used := make([]bool, len(i.pc))
	hasF := c.HasF
	changed := true
	for changed {
		changed = false
		for k, p := range i.pc {
			if used[k] {
				continue
			}
			hit := false
			for _, v := range termVars(p) {
				if in[v] {
					hit = true
					break
				}
			}
			if hit {
				used[k] = true
				changed = true
				if p.HasF {
					hasF = true
				}
				for _, v := range termVars(p) {
					in[v] = true
				}
			}
		}
	}
	var out []*Term
	for k, p := range i.pc {
		if used[k] {
			out = append(out, p)
		}
	}
	return out, hasF
}

type sliceResult struct {
	res   string
	model []uint64 // by canonical variable index (sat only)
}

var sliceCache sync.Map // canonical query text -> sliceResult
var SliceStats struct {
	sync.Mutex
	Hits, Misses int
}

// canonQuery renders constraints as a standalone SMT-LIB script body with
// canonical names; returns text and the variables in canonical order.
func (i *interpreter) canonQuery(cons []*Term) (string, []*Term) {
	var vars []*Term
	vname := map[int]string{}
	nname := map[int]string{}
	var decl, body strings.Builder
	ufs := map[string]bool{}
	nextN := 0
	refc := func(t *Term) string {
		if t.Op == OpConst {
			return constSMT(t)
		}
		if t.Op == OpVar {
			return vname[t.ID]
		}
		return nname[t.ID]
	}
	bodyc := func(t *Term) string {
		// like body() but with canonical refs
		var sb strings.Builder
		a := func(k int) string { return refc(t.Args[k]) }
		switch t.Op {
		case OpZExt:
			fmt.Fprintf(&sb, "((_ zero_extend %d) %s)", t.Sort.Width()-t.Args[0].Sort.Width(), a(0))
		case OpSExt:
			fmt.Fprintf(&sb, "((_ sign_extend %d) %s)", t.Sort.Width()-t.Args[0].Sort.Width(), a(0))
		case OpTrunc:
			fmt.Fprintf(&sb, "((_ extract %d 0) %s)", t.Sort.Width()-1, a(0))
		case OpFFromS:
			fmt.Fprintf(&sb, "((_ to_fp %s) RNE %s)", fpDims(t.Sort), a(0))
		case OpFFromU:
			fmt.Fprintf(&sb, "((_ to_fp_unsigned %s) RNE %s)", fpDims(t.Sort), a(0))
		case OpFToS:
			fmt.Fprintf(&sb, "((_ fp.to_sbv %d) RTZ %s)", t.Sort.Width(), a(0))
		case OpFToU:
			fmt.Fprintf(&sb, "((_ fp.to_ubv %d) RTZ %s)", t.Sort.Width(), a(0))
		case OpFToF:
			fmt.Fprintf(&sb, "((_ to_fp %s) RNE %s)", fpDims(t.Sort), a(0))
		case OpFOfBits:
			fmt.Fprintf(&sb, "((_ to_fp %s) %s)", fpDims(t.Sort), a(0))
		default:
			name := opSMT[t.Op]
			if t.Op == OpUF {
				name = t.Name
			}
			sb.WriteString("(" + name)
			for k := range t.Args {
				sb.WriteString(" " + a(k))
			}
			sb.WriteString(")")
		}
		return sb.String()
	}
	for _, c := range cons {
		// post-order over c, binding every new non-leaf node with let
		var order []*Term
		local := map[int]bool{}
		var rec func(t *Term)
		rec = func(t *Term) {
			if t.Op == OpConst || local[t.ID] {
				return
			}
			local[t.ID] = true
			if t.Op == OpVar {
				if _, ok := vname[t.ID]; !ok {
					vname[t.ID] = "x" + strconv.Itoa(len(vars))
					vars = append(vars, t)
					fmt.Fprintf(&decl, "(declare-const %s %s)\n", vname[t.ID], t.Sort.SMT())
				}
				return
			}
			for _, a := range t.Args {
				rec(a)
			}
			if t.Op == OpUF && !ufs[t.Name] {
				ufs[t.Name] = true
				sig := i.st.UFs[t.Name]
				var as []string
				for _, a := range sig.args {
					as = append(as, a.SMT())
				}
				fmt.Fprintf(&decl, "(declare-fun %s (%s) %s)\n", t.Name, strings.Join(as, " "), sig.res.SMT())
			}
			order = append(order, t)
		}
		rec(c)
		if len(order) == 0 {
			body.WriteString("(assert " + refc(c) + ")\n")
			continue
		}
		// names are local to this assertion (let scope), numbered canonically
		body.WriteString("(assert ")
		for _, n := range order[:len(order)-1] {
			nname[n.ID] = "n" + strconv.Itoa(nextN)
			nextN++
			body.WriteString("(let ((" + nname[n.ID] + " " + bodyc(n) + ")) ")
		}
		body.WriteString(bodyc(order[len(order)-1]))
		for range order[:len(order)-1] {
			body.WriteString(")")
		}
		body.WriteString(")\n")
	}
	return decl.String() + body.String(), vars
}

// sliceCheck decides PC ∧ c on the FP solver through slicing and caching.
// On sat it returns a model for the slice's variables.
func (i *interpreter) sliceCheck(c *Term) (string, map[int]uint64) {
	cons, _ := i.sliceFor(c)
	cons = append(cons, c)
	text, vars := i.canonQuery(cons)
	if r, ok := sliceCache.Load(text); ok {
		sr := r.(sliceResult)
		SliceStats.Lock()
		SliceStats.Hits++
		SliceStats.Unlock()
		i.sliceHits++
		return sr.res, modelFrom(vars, sr.model)
	}
	SliceStats.Lock()
	SliceStats.Misses++
	if os.Getenv("VERIF_DEBUG_SLICE") != "" && SliceStats.Misses <= 4 {
		fmt.Println("---- slice miss ----")
		fmt.Println(text)
	}
	SliceStats.Unlock()
	s := i.fp()
	tq := time.Now()
	res, vals := s.Standalone(text, vars)
	if d := time.Since(tq); d > 5*time.Second && os.Getenv("VERIF_SLOWQ") != "" {
		f, _ := os.CreateTemp("", "slowq-*.smt2")
		fmt.Fprintf(f, "; %s %v\n%s", res, d, text)
		f.Close()
		fmt.Printf("SLOW FP QUERY %v %s -> %s (%d bytes)\n", d, res, f.Name(), len(text))
	}
	if res == "sat" || res == "unsat" {
		sliceCache.Store(text, sliceResult{res, vals})
	}
	return res, modelFrom(vars, vals)
}

func modelFrom(vars []*Term, vals []uint64) map[int]uint64 {
	if vals == nil {
		return nil
	}
	m := map[int]uint64{}
	for k, v := range vars {
		if k < len(vals) {
			m[v.ID] = vals[k]
		}
	}
	return m
}

// Standalone runs a self-contained script (declarations + assertions with
// canonical names x0..xn) in a fresh scope and returns the verdict and, when
// sat, the values of x0..xn.
func (s *Solver) Standalone(text string, vars []*Term) (string, []uint64) {
	s.raw("(push 1)\n")
	s.raw(text)
	r := s.Check()
	var vals []uint64
	if r == "sat" && len(vars) > 0 {
		// temporarily register canonical names for Model()
		tmp := make([]*Term, len(vars))
		for k, v := range vars {
			tmp[k] = &Term{ID: -1 - k, Op: OpVar, Sort: v.Sort, Name: "x" + strconv.Itoa(k)}
			s.defined[tmp[k].ID] = true
		}
		m, err := s.Model(tmp)
		for _, t := range tmp {
			delete(s.defined, t.ID)
		}
		if err == nil {
			vals = make([]uint64, len(vars))
			for k, t := range tmp {
				vals[k] = m[t.ID]
			}
		}
	}
	s.raw("(pop 1)\n")
	s.flush()
	return r, vals
}
