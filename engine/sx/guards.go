package sx

import (
	"fmt"
	"go/types"
	"sort"
	"strings"

	"golang.org/x/tools/go/ssa"
)

// Lock-discipline / write-set tracking (C11). No goroutine is executed: the
// executor checks, on every symbolic path, obligations from which race
// freedom follows by the standard lockset argument:
//
//   guard(obj, mu):   every store to a cell of obj needs mu held in write mode,
//                     every load needs mu held in either mode - unless no path
//                     of the harness stores to that field (cross-path check);
//                     map contents count as cells of the map.
//   freeze(roots):    no store / map update to anything reachable from roots.
//   atomicOnly(cell): the cell is touched only through sync/atomic.

type guardSet struct {
	sections int             // critical sections entered on mu since the guard was declared
	readNow  map[string]bool // labels read in the current critical section
	readPrev map[string]bool // labels read in earlier critical sections (what earlier decisions rested on)
	name     string
	mu       *value
	cells    map[*value]string
	maps     map[*smap]string
	mode     int // 0 lock-guarded, 1 frozen, 2 atomic-only
}

type disciplineEvent struct {
	Label string
	Msg   string
}

func (i *interpreter) collectCells(v value, t types.Type, label string, g *guardSet, seen map[*value]bool, depth int) {
	if depth > 12 || t == nil {
		return
	}
	switch tt := t.Underlying().(type) {
	case *types.Pointer:
		p, ok := v.(*value)
		if !ok || p == nil || seen[p] {
			return
		}
		seen[p] = true
		// the pointee cell itself (for pointers to scalars) and its content
		if _, isStruct := tt.Elem().Underlying().(*types.Struct); !isStruct {
			g.cells[p] = label
		}
		i.collectCells(*p, tt.Elem(), label, g, seen, depth+1)
	case *types.Struct:
		sv, ok := v.(structure)
		if !ok {
			return
		}
		name := label
		if n, ok := t.(*types.Named); ok {
			name = n.Obj().Name()
		}
		if depth > 1 {
			// a nested object with its own mutex guards itself (checked by its own harness)
			// (only a real lock counts: a flag from sync/atomic beside plain fields guards nothing the
			// lock model could check, so such an object stays inside the guarded / frozen set)
			for k := 0; k < tt.NumFields(); k++ {
				if isLockType(tt.Field(k).Type()) {
					return
				}
			}
		}
		for k := 0; k < tt.NumFields(); k++ {
			f := tt.Field(k)
			fl := name + "." + f.Name()
			if isSyncType(f.Type()) {
				continue
			}
			g.cells[&sv[k]] = fl
			i.collectCells(sv[k], f.Type(), fl, g, seen, depth+1)
		}
	case *types.Slice:
		sl, ok := v.([]value)
		if !ok {
			return
		}
		for k := range sl {
			g.cells[&sl[k]] = label + "[]"
			i.collectCells(sl[k], tt.Elem(), label+"[]", g, seen, depth+1)
		}
	case *types.Array:
		av, ok := v.(array)
		if !ok {
			return
		}
		for k := range av {
			g.cells[&av[k]] = label + "[]"
			i.collectCells(av[k], tt.Elem(), label+"[]", g, seen, depth+1)
		}
	case *types.Map:
		m, ok := v.(*smap)
		if !ok || m == nil {
			return
		}
		g.maps[m] = label
		for _, e := range m.live() {
			i.collectCells(e.val, tt.Elem(), label+"[]", g, seen, depth+1)
		}
	case *types.Interface:
		it, ok := v.(iface)
		if !ok || it.t == nil {
			return
		}
		i.collectCells(it.v, it.t, label, g, seen, depth+1)
	}
}

func isSyncType(t types.Type) bool {
	n, ok := t.(*types.Named)
	if !ok || n.Obj().Pkg() == nil {
		return false
	}
	p := n.Obj().Pkg().Path()
	return p == "sync" || p == "sync/atomic"
}

func isLockType(t types.Type) bool {
	n, ok := t.(*types.Named)
	if !ok || n.Obj().Pkg() == nil {
		return false
	}
	return n.Obj().Pkg().Path() == "sync" && (n.Obj().Name() == "Mutex" || n.Obj().Name() == "RWMutex")
}

func (i *interpreter) heldMode(mu *value) (writer bool, reader bool) {
	li := i.locks[mu]
	if li == nil {
		return false, false
	}
	return li.writer, li.readers > 0
}

func (i *interpreter) discipline(label, msg string, fr *frame) {
	where := ""
	if fr != nil {
		where = " in " + fr.fn.String()
		if fr.curInstr != nil {
			where += " @ " + fr.site(fr.curInstr.Pos())
		}
	}
	key := msg + where
	if i.disciplineSeen[key] {
		return
	}
	i.disciplineSeen[key] = true
	f := Finding{Harness: i.harnessName, Kind: "discipline", Msg: msg, Site: where, Decisions: append([]int(nil), i.decisions...)}
	if r, m := i.fullModel(nil); r == "sat" {
		f.Vector, f.Named, _ = i.modelVector(m)
	}
	i.findings = append(i.findings, f)
}

// onStore / onLoad / onMapWrite / onMapRead are called from the interpreter when guards exist.
func (i *interpreter) onStore(fr *frame, addr *value) {
	for _, g := range i.guards {
		lbl, ok := g.cells[addr]
		if !ok {
			continue
		}
		i.accessCount++
		switch g.mode {
		case 0:
			i.storedLabels[lbl] = true
			if w, _ := i.heldMode(g.mu); !w {
				i.discipline(lbl, fmt.Sprintf("C11: store to %s of %s without holding its mutex in write mode", lbl, g.name), fr)
			} else if g.sections >= 2 && !g.readNow[lbl] {
				i.discipline(lbl, fmt.Sprintf("C11: %s of %s is overwritten in a re-acquired critical section without being re-read first (check-then-act split across two critical sections)", lbl, g.name), fr)
			} else if g.sections >= 2 {
				i.staleDecision(g, lbl, fr)
			}
		case 1:
			i.discipline(lbl, fmt.Sprintf("C11: %s writes to shared state (%s) that existed before the call", g.name, lbl), fr)
		case 2:
			i.discipline(lbl, fmt.Sprintf("C11: %s is updated by a plain store instead of sync/atomic", lbl), fr)
		}
	}
}

func (i *interpreter) onLoad(fr *frame, addr *value) {
	for _, g := range i.guards {
		lbl, ok := g.cells[addr]
		if !ok {
			continue
		}
		i.accessCount++
		if g.readNow != nil {
			g.readNow[lbl] = true
		}
		switch g.mode {
		case 0:
			if w, r := i.heldMode(g.mu); !w && !r {
				// allowed only if no path ever stores to this field: decided across paths
				if _, seen := i.unlockedLoads[lbl]; !seen {
					site := fr.fn.String()
					if fr.curInstr != nil {
						site += " @ " + fr.site(fr.curInstr.Pos())
					}
					i.unlockedLoads[lbl] = site
				}
			}
		case 2:
			i.discipline(lbl, fmt.Sprintf("C11: %s is read by a plain load instead of sync/atomic", lbl), fr)
		}
	}
}

func (i *interpreter) onMapAccess(fr *frame, m *smap, write bool) {
	if m == nil {
		return
	}
	for _, g := range i.guards {
		lbl, ok := g.maps[m]
		if !ok {
			continue
		}
		i.accessCount++
		switch g.mode {
		case 0:
			w, r := i.heldMode(g.mu)
			if write {
				i.storedLabels[lbl+"{}"] = true
				if !w {
					i.discipline(lbl, fmt.Sprintf("C11: update of map %s of %s without holding its mutex in write mode", lbl, g.name), fr)
				} else if g.sections >= 2 && !g.readNow[lbl+"{}"] {
					i.discipline(lbl, fmt.Sprintf("C11: map %s of %s is updated in a re-acquired critical section without being looked up again first (check-then-act split across two critical sections)", lbl, g.name), fr)
				} else if g.sections >= 2 {
					i.staleDecision(g, lbl, fr)
				}
			} else if g.readNow != nil {
				g.readNow[lbl+"{}"] = true
			}
			if !write && !w && !r {
				if _, seen := i.unlockedLoads[lbl+"{}"]; !seen {
					i.unlockedLoads[lbl+"{}"] = fr.fn.String()
				}
			}
		case 1:
			if write {
				i.discipline(lbl, fmt.Sprintf("C11: %s updates a shared map (%s) that existed before the call", g.name, lbl), fr)
			}
		}
	}
}

func (i *interpreter) onAtomic(fr *frame, p *value, write bool) {
	for _, g := range i.guards {
		lbl, ok := g.cells[p]
		if !ok {
			continue
		}
		i.accessCount++
		if g.mode == 1 && write {
			i.discipline(lbl, fmt.Sprintf("C11: %s atomically writes shared state (%s) that existed before the call", g.name, lbl), fr)
		}
	}
}

func init() {
	harnessAPI["verifGuard"] = func(fr *frame, a []value) value {
		// verifGuard(name string, obj any, mu any)
		i := fr.i
		obj := a[1].(iface)
		mu := a[2].(iface).v.(*value)
		g := &guardSet{name: nameArg(a[0]), mu: mu, cells: map[*value]string{}, maps: map[*smap]string{}}
		i.collectCells(obj.v, obj.t, nameArg(a[0]), g, map[*value]bool{}, 0)
		i.guards = append(i.guards, g)
		i.installGuardHooks()
		return nil
	}
	harnessAPI["verifGuardNamed"] = func(fr *frame, a []value) value {
		// verifGuardNamed(name string, obj any, mutexField string): like verifGuard, the mutex being
		// the field of that name (looked up at run time, so the harness still compiles when a
		// refactoring removes it). Without such a field the object is guarded by "no lock at all":
		// every plain store to it is then a finding (only sync/atomic accesses remain legal).
		i := fr.i
		obj := a[1].(iface)
		field := a[2].(string)
		g := &guardSet{name: nameArg(a[0]), cells: map[*value]string{}, maps: map[*smap]string{}}
		if p, ok := obj.v.(*value); ok && p != nil {
			if st, ok := deref(obj.t).Underlying().(*types.Struct); ok {
				if sv, ok := (*p).(structure); ok {
					for k := 0; k < st.NumFields(); k++ {
						if st.Field(k).Name() == field {
							g.mu = &sv[k]
						}
					}
				}
			}
		}
		if g.mu == nil {
			var none value = structure{}
			g.mu = &none // never held
			g.name += " (no mutex field " + field + ")"
		}
		i.collectCells(obj.v, obj.t, nameArg(a[0]), g, map[*value]bool{}, 0)
		i.guards = append(i.guards, g)
		i.installGuardHooks()
		return nil
	}
	harnessAPI["verifHeldNamed"] = func(fr *frame, a []value) value {
		// verifHeldNamed(obj any, mutexField string) int: as verifHeld for the named field; 0 when absent
		i := fr.i
		obj := a[0].(iface)
		field := a[1].(string)
		if p, ok := obj.v.(*value); ok && p != nil {
			if st, ok := deref(obj.t).Underlying().(*types.Struct); ok {
				if sv, ok := (*p).(structure); ok {
					for k := 0; k < st.NumFields(); k++ {
						if st.Field(k).Name() == field {
							if li := i.locks[&sv[k]]; li != nil {
								n := li.readers
								if li.writer {
									n++
								}
								return n
							}
						}
					}
				}
			}
		}
		return 0
	}
	harnessAPI["verifFreeze"] = func(fr *frame, a []value) value {
		// verifFreeze(name string, roots ...any): nothing reachable from the roots (and from
		// the package-level variables of the module) may be written from now on
		i := fr.i
		g := &guardSet{name: nameArg(a[0]), cells: map[*value]string{}, maps: map[*smap]string{}, mode: 1}
		seen := map[*value]bool{}
		for _, r := range a[1].([]value) {
			it := r.(iface)
			i.collectCells(it.v, it.t, "root", g, seen, 0)
		}
		var gl []*ssa.Global
		for gv := range i.globals {
			gl = append(gl, gv)
		}
		sort.Slice(gl, func(x, y int) bool { return gl[x].String() < gl[y].String() })
		for _, gv := range gl {
			cell := i.globals[gv]
			g.cells[cell] = gv.String()
			i.collectCells(*cell, deref(gv.Type()), gv.String(), g, seen, 0)
		}
		i.guards = append(i.guards, g)
		i.installGuardHooks()
		return nil
	}
	harnessAPI["verifAtomicOnly"] = func(fr *frame, a []value) value {
		// verifAtomicOnly(name string, cell any /* pointer */)
		i := fr.i
		p := a[1].(iface).v.(*value)
		g := &guardSet{name: nameArg(a[0]), cells: map[*value]string{p: nameArg(a[0])}, maps: map[*smap]string{}, mode: 2}
		i.guards = append(i.guards, g)
		i.installGuardHooks()
		return nil
	}
	harnessAPI["verifUnguard"] = func(fr *frame, a []value) value {
		fr.i.guards = nil
		return nil
	}
	harnessAPI["verifHeld"] = func(fr *frame, a []value) value {
		// verifHeld(mu any) int: 0 free, 1 read-held, 2 write-held (after a call: must be 0)
		mu := a[0].(iface).v.(*value)
		w, r := fr.i.heldMode(mu)
		if w {
			return 2
		}
		if r {
			return 1
		}
		return 0
	}
}

func (i *interpreter) installGuardHooks() {
	i.storeHook = func(fr *frame, instr *ssa.Store, addr *value) { i.onStore(fr, addr) }
	i.loadHook = func(fr *frame, addr *value) { i.onLoad(fr, addr) }
	i.mapWriteHook = func(fr *frame, instr *ssa.MapUpdate, m *smap) { i.onMapAccess(fr, m, true) }
	i.mapAccessHook = func(fr *frame, m *smap, write bool) { i.onMapAccess(fr, m, write) }
	i.atomicHook = func(fr *frame, p *value, write bool) { i.onAtomic(fr, p, write) }
}

// onAcquire starts a new critical section on every guard whose mutex is p.
func (i *interpreter) onAcquire(p *value) {
	for _, g := range i.guards {
		if g.mu == p {
			g.sections++
			if g.readPrev == nil {
				g.readPrev = map[string]bool{}
			}
			for l := range g.readNow {
				g.readPrev[l] = true
			}
			g.readNow = map[string]bool{}
		}
	}
}

// staleDecision: a write in a re-acquired critical section while something an earlier section
// read (and may have based its decision on) has not been read again in this one.
func (i *interpreter) staleDecision(g *guardSet, lbl string, fr *frame) {
	var stale []string
	for l := range g.readPrev {
		if !g.readNow[l] {
			stale = append(stale, l)
		}
	}
	if len(stale) == 0 {
		return
	}
	sort.Strings(stale)
	i.discipline("stale:"+lbl, fmt.Sprintf("C11: %s of %s is written in a re-acquired critical section although %s, read under the earlier acquisition, was not read again (the earlier decision may be stale)", lbl, g.name, strings.Join(stale, ", ")), fr)
}
