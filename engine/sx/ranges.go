package sx

import "math"

// Cheap unsigned-interval facts about BV terms, harvested from assumed
// constraints (x <= c, c <= x, x == c and their negations). They let decide()
// settle byte-class comparisons without a solver call. Purely an
// optimisation: whatever is derived here is implied by the path condition.

type urange struct{ lo, hi uint64 }

func (i *interpreter) rangeOf(t *Term) urange {
	w := t.Sort.Width()
	if t.IsConst() {
		return urange{t.C, t.C}
	}
	if r, ok := i.ranges[t.ID]; ok {
		return r
	}
	switch t.Op {
	case OpZExt:
		return i.rangeOf(t.Args[0])
	case OpIte:
		a, b := i.rangeOf(t.Args[1]), i.rangeOf(t.Args[2])
		if b.lo < a.lo {
			a.lo = b.lo
		}
		if b.hi > a.hi {
			a.hi = b.hi
		}
		return a
	case OpAdd:
		// x + c without wrap
		if t.Args[1].IsConst() {
			r := i.rangeOf(t.Args[0])
			c := t.Args[1].C
			if r.hi+c >= r.hi && r.hi+c <= mask(w) {
				return urange{r.lo + c, r.hi + c}
			}
		}
	case OpBAnd:
		if t.Args[1].IsConst() {
			return urange{0, t.Args[1].C}
		}
		if t.Args[0].IsConst() {
			return urange{0, t.Args[0].C}
		}
	}
	return urange{0, mask(w)}
}

func (i *interpreter) setRange(t *Term, lo, hi uint64) {
	if t.IsConst() {
		return
	}
	if t.Op == OpZExt {
		// push the fact down to the narrower term when it fits
		in := t.Args[0]
		m := mask(in.Sort.Width())
		if hi > m {
			hi = m
		}
		if lo <= m {
			i.setRange(in, lo, hi)
		}
	}
	r := i.rangeOf(t)
	if lo > r.lo {
		r.lo = lo
	}
	if hi < r.hi {
		r.hi = hi
	}
	if r.lo <= r.hi {
		i.ranges[t.ID] = r
	}
}

// learnRange extracts interval facts from an assumed atom (v = its truth value).
func (i *interpreter) learnRange(c *Term, v bool) {
	if len(c.Args) != 2 {
		return
	}
	a, b := c.Args[0], c.Args[1]
	if !a.Sort.IsBV() {
		return
	}
	w := a.Sort.Width()
	m := mask(w)
	signedOK := func(t *Term) bool { // values known below the sign bit
		r := i.rangeOf(t)
		return r.hi < uint64(1)<<(w-1)
	}
	switch c.Op {
	case OpEq:
		if v {
			if b.IsConst() {
				i.setRange(a, b.C, b.C)
			} else if a.IsConst() {
				i.setRange(b, a.C, a.C)
			}
		}
	case OpULe, OpSLe:
		if c.Op == OpSLe && !(signedOK(a) && signedOK(b)) {
			return
		}
		if v { // a <= b
			if b.IsConst() {
				i.setRange(a, 0, b.C)
			} else if a.IsConst() {
				i.setRange(b, a.C, m)
			}
		} else { // a > b
			if b.IsConst() && b.C < m {
				i.setRange(a, b.C+1, m)
			} else if a.IsConst() && a.C > 0 {
				i.setRange(b, 0, a.C-1)
			}
		}
	case OpULt, OpSLt:
		if c.Op == OpSLt && !(signedOK(a) && signedOK(b)) {
			return
		}
		if v { // a < b
			if b.IsConst() && b.C > 0 {
				i.setRange(a, 0, b.C-1)
			} else if a.IsConst() && a.C < m {
				i.setRange(b, a.C+1, m)
			}
		} else { // a >= b
			if b.IsConst() {
				i.setRange(a, b.C, m)
			} else if a.IsConst() {
				i.setRange(b, 0, a.C)
			}
		}
	}
}

// evalRanges tries to settle a Bool term from interval facts and known atoms.
func (i *interpreter) evalRanges(c *Term) (bool, bool) {
	if c.IsConst() {
		return c.C == 1, true
	}
	if v, ok := i.known[c.ID]; ok {
		return v, true
	}
	switch c.Op {
	case OpNot:
		v, ok := i.evalRanges(c.Args[0])
		return !v, ok
	case OpAnd:
		v1, ok1 := i.evalRanges(c.Args[0])
		v2, ok2 := i.evalRanges(c.Args[1])
		if (ok1 && !v1) || (ok2 && !v2) {
			return false, true
		}
		if ok1 && ok2 {
			return true, true
		}
		return false, false
	case OpOr:
		v1, ok1 := i.evalRanges(c.Args[0])
		v2, ok2 := i.evalRanges(c.Args[1])
		if (ok1 && v1) || (ok2 && v2) {
			return true, true
		}
		if ok1 && ok2 {
			return false, true
		}
		return false, false
	case OpFLt, OpFLe, OpFEq, OpFIsNaN, OpFIsInf:
		return i.evalFRanges(c)
	case OpEq, OpULe, OpULt, OpSLe, OpSLt:
		a, b := c.Args[0], c.Args[1]
		if !a.Sort.IsBV() {
			return false, false
		}
		ra, rb := i.rangeOf(a), i.rangeOf(b)
		w := a.Sort.Width()
		if c.Op == OpSLe || c.Op == OpSLt {
			top := uint64(1) << (w - 1)
			if ra.hi >= top || rb.hi >= top {
				return false, false
			}
		}
		switch c.Op {
		case OpEq:
			if ra.hi < rb.lo || rb.hi < ra.lo {
				return false, true
			}
			if ra.lo == ra.hi && rb.lo == rb.hi && ra.lo == rb.lo {
				return true, true
			}
		case OpULe, OpSLe:
			if ra.hi <= rb.lo {
				return true, true
			}
			if ra.lo > rb.hi {
				return false, true
			}
		case OpULt, OpSLt:
			if ra.hi < rb.lo {
				return true, true
			}
			if ra.lo >= rb.hi {
				return false, true
			}
		}
	}
	return false, false
}

// ---- floating-point interval facts (term vs constant comparisons) ----

type frange struct {
	lo, hi float64 // inclusive bounds; valid only if known non-NaN
}

func (i *interpreter) learnFRange(c *Term, v bool) {
	if c.Op == OpFIsNaN && !v && len(c.Args) == 1 && !c.Args[0].IsConst() {
		// known not to be NaN: an (unbounded) interval entry records exactly that
		if _, ok := i.franges[c.Args[0].ID]; !ok {
			i.franges[c.Args[0].ID] = frange{math.Inf(-1), math.Inf(1)}
		}
		return
	}
	if len(c.Args) != 2 || !c.Args[0].Sort.IsFP() {
		return
	}
	a, b := c.Args[0], c.Args[1]
	set := func(t *Term, lo, hi float64) {
		if t.IsConst() {
			return
		}
		r, ok := i.franges[t.ID]
		if !ok {
			r = frange{math.Inf(-1), math.Inf(1)}
		}
		if lo > r.lo {
			r.lo = lo
		}
		if hi < r.hi {
			r.hi = hi
		}
		i.franges[t.ID] = r
	}
	if !v {
		// a false comparison may be due to NaN: learn only about a term already known not to be NaN
		notNaN := func(t *Term) bool { _, ok := i.franges[t.ID]; return ok }
		switch c.Op {
		case OpFLt: // not (a < b)  =>  a >= b
			if b.IsConst() && notNaN(a) && fconst(b) == fconst(b) {
				set(a, fconst(b), math.Inf(1))
			} else if a.IsConst() && notNaN(b) && fconst(a) == fconst(a) {
				set(b, math.Inf(-1), fconst(a))
			}
		case OpFLe: // not (a <= b)  =>  a > b
			if b.IsConst() && notNaN(a) && fconst(b) == fconst(b) {
				set(a, math.Nextafter(fconst(b), math.Inf(1)), math.Inf(1))
			} else if a.IsConst() && notNaN(b) && fconst(a) == fconst(a) {
				set(b, math.Inf(-1), math.Nextafter(fconst(a), math.Inf(-1)))
			}
		}
		return
	}
	switch c.Op {
	case OpFLe, OpFLt: // a <= b (or <) holds: neither is NaN
		if b.IsConst() {
			set(a, math.Inf(-1), fconst(b))
		} else if a.IsConst() {
			set(b, fconst(a), math.Inf(1))
		}
	case OpFEq:
		if b.IsConst() {
			set(a, fconst(b), fconst(b))
		} else if a.IsConst() {
			set(b, fconst(a), fconst(a))
		}
	}
}

// evalFRanges settles FP comparisons against constants from interval facts.
func (i *interpreter) evalFRanges(c *Term) (bool, bool) {
	if len(c.Args) < 1 || !c.Args[0].Sort.IsFP() {
		return false, false
	}
	rng := func(t *Term) (frange, bool) {
		if t.IsConst() {
			f := fconst(t)
			if f != f {
				return frange{}, false
			}
			return frange{f, f}, true
		}
		r, ok := i.franges[t.ID]
		return r, ok
	}
	switch c.Op {
	case OpFIsNaN:
		if _, ok := rng(c.Args[0]); ok {
			return false, true
		}
	case OpFIsInf:
		if r, ok := rng(c.Args[0]); ok && !math.IsInf(r.lo, 0) && !math.IsInf(r.hi, 0) {
			return false, true
		}
	case OpFLt, OpFLe, OpFEq:
		ra, oka := rng(c.Args[0])
		rb, okb := rng(c.Args[1])
		if !oka || !okb {
			return false, false
		}
		switch c.Op {
		case OpFLt:
			if ra.hi < rb.lo {
				return true, true
			}
			if ra.lo >= rb.hi {
				return false, true
			}
		case OpFLe:
			if ra.hi <= rb.lo {
				return true, true
			}
			if ra.lo > rb.hi {
				return false, true
			}
		case OpFEq:
			if ra.hi < rb.lo || rb.hi < ra.lo {
				return false, true
			}
		}
	}
	return false, false
}
