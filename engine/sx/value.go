// Derived from golang.org/x/tools/go/ssa/interp (BSD-style license, The Go
// Authors), adapted into a symbolic executor: scalars may be SMT terms.

package sx

// Values
//
// - bool, numbers (all built-in types distinguished), string  -- concrete scalars
// - *Sym     -- symbolic scalar (bool / integer / float) of Go basic kind K
// - symstr   -- string of concrete length whose bytes may be symbolic
// - *smap    -- maps (ordered entry list; keys may be symbolic)
// - []value  -- slices;  array, structure, iface, *value (pointers)
// - *ssa.Function, *ssa.Builtin, *closure -- functions
// - tuple, iter, bad

import (
	"bytes"
	"fmt"
	"go/types"
	"unicode/utf8"

	"golang.org/x/tools/go/ssa"
)

type value any

type tuple []value

type array []value

type iface struct {
	t types.Type // never an "untyped" type
	v value
}

type structure []value

// Sym is a symbolic scalar.
type Sym struct {
	T *Term
	K types.BasicKind // Bool, Int.., Uint.., Float32, Float64
}

// symstr is a string with concrete length whose bytes are uint8 or *Sym(Uint8).
type symstr struct {
	b []value
}

type iter interface {
	// next returns a Tuple (ok, key, value).
	next(fr *frame) tuple
}

type closure struct {
	Fn  *ssa.Function
	Env []value
}

type bad struct{}

// nil-tolerant variant of types.Identical.
func sameType(x, y types.Type) bool {
	if x == nil {
		return y == nil
	}
	return y != nil && types.Identical(x, y)
}

func isSym(v value) bool {
	switch v.(type) {
	case *Sym, symstr:
		return true
	}
	return false
}

// hasSym reports whether v (deeply, but not through pointers) contains a symbolic part.
func hasSym(v value) bool {
	switch v := v.(type) {
	case *Sym, symstr:
		return true
	case structure:
		for _, e := range v {
			if hasSym(e) {
				return true
			}
		}
	case array:
		for _, e := range v {
			if hasSym(e) {
				return true
			}
		}
	case iface:
		return hasSym(v.v)
	}
	return false
}

// load returns the value of type T in *addr.
func load(T types.Type, addr *value) value {
	switch T := T.Underlying().(type) {
	case *types.Struct:
		v := (*addr).(structure)
		a := make(structure, len(v))
		for i := range a {
			a[i] = load(T.Field(i).Type(), &v[i])
		}
		return a
	case *types.Array:
		v := (*addr).(array)
		a := make(array, len(v))
		for i := range a {
			a[i] = load(T.Elem(), &v[i])
		}
		return a
	default:
		return *addr
	}
}

// store stores value v of type T into *addr.
func store(T types.Type, addr *value, v value) {
	switch T := T.Underlying().(type) {
	case *types.Struct:
		lhs := (*addr).(structure)
		rhs := v.(structure)
		for i := range lhs {
			store(T.Field(i).Type(), &lhs[i], rhs[i])
		}
	case *types.Array:
		lhs := (*addr).(array)
		rhs := v.(array)
		for i := range lhs {
			store(T.Elem(), &lhs[i], rhs[i])
		}
	default:
		*addr = v
	}
}

func writeValue(buf *bytes.Buffer, v value) {
	switch v := v.(type) {
	case nil, bool, int, int8, int16, int32, int64, uint, uint8, uint16, uint32, uint64, uintptr, float32, float64, complex64, complex128:
		fmt.Fprintf(buf, "%v", v)
	case string:
		fmt.Fprintf(buf, "%q", v)
	case *Sym:
		fmt.Fprintf(buf, "<sym %s>", Expand(v.T, 80))
	case symstr:
		buf.WriteString("\"")
		for _, b := range v.b {
			if c, ok := b.(uint8); ok {
				if c >= 0x20 && c < 0x7f {
					buf.WriteByte(c)
				} else {
					fmt.Fprintf(buf, "\\x%02x", c)
				}
			} else {
				buf.WriteString("?")
			}
		}
		buf.WriteString("\"")
	case *smap:
		buf.WriteString("map[")
		if v != nil {
			for i, e := range v.live() {
				if i > 0 {
					buf.WriteString(" ")
				}
				writeValue(buf, e.key)
				buf.WriteString(":")
				writeValue(buf, e.val)
			}
		}
		buf.WriteString("]")
	case *value:
		if v == nil {
			buf.WriteString("<nil>")
		} else {
			fmt.Fprintf(buf, "%p", v)
		}
	case iface:
		fmt.Fprintf(buf, "(%s, ", v.t)
		writeValue(buf, v.v)
		buf.WriteString(")")
	case structure:
		buf.WriteString("{")
		for i, e := range v {
			if i > 0 {
				buf.WriteString(" ")
			}
			writeValue(buf, e)
		}
		buf.WriteString("}")
	case array:
		buf.WriteString("[")
		for i, e := range v {
			if i > 0 {
				buf.WriteString(" ")
			}
			writeValue(buf, e)
		}
		buf.WriteString("]")
	case []value:
		buf.WriteString("[")
		for i, e := range v {
			if i > 0 {
				buf.WriteString(" ")
			}
			writeValue(buf, e)
		}
		buf.WriteString("]")
	case *ssa.Function, *ssa.Builtin, *closure:
		fmt.Fprintf(buf, "%p", v)
	case tuple:
		buf.WriteString("(")
		for i, e := range v {
			if i > 0 {
				buf.WriteString(", ")
			}
			writeValue(buf, e)
		}
		buf.WriteString(")")
	default:
		fmt.Fprintf(buf, "<%T>", v)
	}
}

func toString(v value) string {
	var b bytes.Buffer
	writeValue(&b, v)
	return b.String()
}

// ------------------------------------------------------------------------
// String helpers. A Go string value is either `string` or `symstr`.

func strLen(v value) int {
	switch s := v.(type) {
	case string:
		return len(s)
	case symstr:
		return len(s.b)
	}
	panic(fmt.Sprintf("strLen: %T", v))
}

// strBytes returns the bytes of a string value as []value of uint8/*Sym.
func strBytes(v value) []value {
	switch s := v.(type) {
	case string:
		out := make([]value, len(s))
		for i := 0; i < len(s); i++ {
			out[i] = s[i]
		}
		return out
	case symstr:
		return s.b
	}
	panic(fmt.Sprintf("strBytes: %T", v))
}

// mkStr builds a string value from bytes, normalising to Go string if concrete.
func mkStr(b []value) value {
	for _, e := range b {
		if _, ok := e.(uint8); !ok {
			cp := make([]value, len(b))
			copy(cp, b)
			return symstr{cp}
		}
	}
	bs := make([]byte, len(b))
	for i, e := range b {
		bs[i] = e.(uint8)
	}
	return string(bs)
}

// ------------------------------------------------------------------------
// Iterators

// stringIter ranges over a (possibly symbolic) string, decoding UTF-8.
type stringIter struct {
	b []value
	i int
}

func (it *stringIter) next(fr *frame) tuple {
	okv := make(tuple, 3)
	if it.i >= len(it.b) {
		okv[0] = false
		return okv
	}
	r, n := fr.i.decodeRune(it.b[it.i:])
	okv[0] = true
	okv[1] = it.i
	okv[2] = r
	it.i += n
	return okv
}

var _ = utf8.RuneError
