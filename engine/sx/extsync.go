package sx

import (
	"fmt"
	"go/types"
)

// sync / atomic / time intrinsics.
//
// Mutexes are modelled as sequential state machines keyed by the address of
// the mutex object; the executor records, per path, which locks are held in
// which mode (used by the C11 lock-discipline obligations).

type lockInfo struct {
	writer  bool
	readers int
}

func (i *interpreter) lockOf(p *value) *lockInfo {
	if i.locks == nil {
		i.locks = map[*value]*lockInfo{}
	}
	li := i.locks[p]
	if li == nil {
		li = &lockInfo{}
		i.locks[p] = li
	}
	return li
}

func (i *interpreter) anyLockHeld() bool {
	for _, li := range i.locks {
		if li.writer || li.readers > 0 {
			return true
		}
	}
	return false
}

func fatalErr(msg string) runtimeErr { return runtimeErr("fatal error: " + msg) }

func init() {
	lock := func(fr *frame, a []value) value {
		p := a[0].(*value)
		li := fr.i.lockOf(p)
		if li.writer || li.readers > 0 {
			panic(fatalErr("all goroutines are asleep - deadlock! (Lock of a mutex this goroutine already holds)"))
		}
		li.writer = true
		fr.i.lockEvents++
		fr.i.onAcquire(p)
		return nil
	}
	unlock := func(fr *frame, a []value) value {
		p := a[0].(*value)
		li := fr.i.lockOf(p)
		if !li.writer {
			panic(fatalErr("sync: unlock of unlocked mutex"))
		}
		li.writer = false
		return nil
	}
	rlock := func(fr *frame, a []value) value {
		p := a[0].(*value)
		li := fr.i.lockOf(p)
		if li.writer {
			panic(fatalErr("all goroutines are asleep - deadlock! (RLock while holding the write lock)"))
		}
		if li.readers > 0 {
			// sync.RWMutex prohibits recursive read locking: once a writer is queued between the
			// two acquisitions, the second RLock waits for the writer and the writer for the first
			fr.i.discipline("rlock-recursive", "C11: a read lock is taken again while this goroutine already holds it (recursive read locking deadlocks as soon as a writer is waiting)", fr)
		}
		li.readers++
		fr.i.lockEvents++
		fr.i.onAcquire(p)
		return nil
	}
	runlock := func(fr *frame, a []value) value {
		p := a[0].(*value)
		li := fr.i.lockOf(p)
		if li.readers <= 0 {
			panic(fatalErr("sync: RUnlock of unlocked RWMutex"))
		}
		li.readers--
		return nil
	}
	// sync.Map with concrete keys (strings, ints): an association list per map object
	smKey := func(i *interpreter, v value) value {
		it, ok := v.(iface)
		if !ok {
			return v
		}
		switch k := it.v.(type) {
		case string, int, int64, uint64, bool, uint8, int32:
			return k
		}
		i.abort(abortUnsupported, "sync.Map with a symbolic or composite key")
		return nil
	}
	smFind := func(i *interpreter, p *value, key value) int {
		for k, e := range i.syncMaps[p] {
			if e[0] == key {
				return k
			}
		}
		return -1
	}
	smInit := func(i *interpreter) {
		if i.syncMaps == nil {
			i.syncMaps = map[*value][][2]value{}
		}
	}
	externals["(*sync.Map).Load"] = func(fr *frame, a []value) value {
		i := fr.i
		smInit(i)
		p := a[0].(*value)
		if k := smFind(i, p, smKey(i, a[1])); k >= 0 {
			return tuple{i.syncMaps[p][k][1], true}
		}
		return tuple{iface{}, false}
	}
	externals["(*sync.Map).Store"] = func(fr *frame, a []value) value {
		i := fr.i
		smInit(i)
		p := a[0].(*value)
		key := smKey(i, a[1])
		if k := smFind(i, p, key); k >= 0 {
			i.syncMaps[p][k][1] = a[2]
		} else {
			i.syncMaps[p] = append(i.syncMaps[p], [2]value{key, a[2]})
		}
		return nil
	}
	externals["(*sync.Map).LoadOrStore"] = func(fr *frame, a []value) value {
		i := fr.i
		smInit(i)
		p := a[0].(*value)
		key := smKey(i, a[1])
		if k := smFind(i, p, key); k >= 0 {
			return tuple{i.syncMaps[p][k][1], true}
		}
		i.syncMaps[p] = append(i.syncMaps[p], [2]value{key, a[2]})
		return tuple{a[2], false}
	}
	externals["(*sync.Map).Delete"] = func(fr *frame, a []value) value {
		i := fr.i
		smInit(i)
		p := a[0].(*value)
		if k := smFind(i, p, smKey(i, a[1])); k >= 0 {
			i.syncMaps[p] = append(i.syncMaps[p][:k:k], i.syncMaps[p][k+1:]...)
		}
		return nil
	}
	// sync.Pool: a per-path free list (the most recently returned object is handed out first,
	// which is what one goroutine observes between garbage collections); empty: New()
	externals["(*sync.Pool).Get"] = func(fr *frame, a []value) value {
		i := fr.i
		p := a[0].(*value)
		if i.pools == nil {
			i.pools = map[*value][]value{}
		}
		if st := i.pools[p]; len(st) > 0 {
			v := st[len(st)-1]
			i.pools[p] = st[:len(st)-1]
			return v
		}
		sv, ok := (*p).(structure)
		if ok && len(sv) > 0 {
			if fn := sv[len(sv)-1]; fn != nil {
				if cl, isNil := fn.(*closure); !(isNil && cl == nil) {
					return i.call(fr, 0, fn, nil)
				}
			}
		}
		return iface{}
	}
	externals["(*sync.Pool).Put"] = func(fr *frame, a []value) value {
		i := fr.i
		p := a[0].(*value)
		if i.pools == nil {
			i.pools = map[*value][]value{}
		}
		if it, ok := a[1].(iface); ok && it.t == nil {
			return nil
		}
		i.pools[p] = append(i.pools[p], a[1])
		return nil
	}
	externals["(*sync.Mutex).Lock"] = lock
	externals["(*sync.Mutex).Unlock"] = unlock
	externals["(*sync.RWMutex).Lock"] = lock
	externals["(*sync.RWMutex).Unlock"] = unlock
	externals["(*sync.RWMutex).RLock"] = rlock
	externals["(*sync.RWMutex).RUnlock"] = runlock
	externals["(*sync.Mutex).TryLock"] = func(fr *frame, a []value) value {
		li := fr.i.lockOf(a[0].(*value))
		if li.writer || li.readers > 0 {
			return false
		}
		li.writer = true
		return true
	}

	// sync/atomic on plain cells
	atomicAdd := func(kind types.BasicKind) externalFn {
		return func(fr *frame, a []value) value {
			p := a[0].(*value)
			if p == nil {
				panic(runtimeErr("invalid memory address or nil pointer dereference"))
			}
			fr.i.atomicOps++
			if fr.i.atomicHook != nil {
				fr.i.atomicHook(fr, p, true)
			}
			nv := fr.i.binop(12 /*token.ADD*/, nil, *p, a[1])
			*p = nv
			return nv
		}
	}
	atomicLoad := func(fr *frame, a []value) value {
		p := a[0].(*value)
		if p == nil {
			panic(runtimeErr("invalid memory address or nil pointer dereference"))
		}
		fr.i.atomicOps++
		if fr.i.atomicHook != nil {
			fr.i.atomicHook(fr, p, false)
		}
		if fr.i.atomicLoaded == nil {
			fr.i.atomicLoaded = map[*value]int{}
		}
		fr.i.atomicLoaded[p] = fr.i.callEpoch
		return *p
	}
	atomicStore := func(fr *frame, a []value) value {
		p := a[0].(*value)
		if p == nil {
			panic(runtimeErr("invalid memory address or nil pointer dereference"))
		}
		fr.i.atomicOps++
		if fr.i.atomicHook != nil {
			fr.i.atomicHook(fr, p, true)
		}
		// a value read with an atomic load and written back with an atomic store, in one function
		// and outside any lock: two goroutines doing so lose one update (needs compare-and-swap)
		// (within one operation of the code under test)
		if ep, ok := fr.i.atomicLoaded[p]; ok && ep == fr.i.callEpoch && !fr.i.anyLockHeld() && len(fr.i.guards) > 0 {
			fr.i.discipline("atomic-rmw", "C11: a word is read with an atomic load and written back with an atomic store (read-modify-write without compare-and-swap: concurrent updates are lost)", fr)
		}
		*p = a[1]
		return nil
	}
	atomicCAS := func(fr *frame, a []value) value {
		p := a[0].(*value)
		fr.i.atomicOps++
		if fr.i.atomicHook != nil {
			fr.i.atomicHook(fr, p, true)
		}
		eq := fr.i.eqTerm(nil, *p, a[1])
		if fr.i.decide(eq, "atomic.CAS") {
			*p = a[2]
			return true
		}
		return false
	}
	for _, n := range []string{"Int64", "Int32", "Uint64", "Uint32", "Uintptr"} {
		externals["sync/atomic.Add"+n] = atomicAdd(types.Int64)
		externals["sync/atomic.Load"+n] = atomicLoad
		externals["sync/atomic.Store"+n] = atomicStore
		externals["sync/atomic.CompareAndSwap"+n] = atomicCAS
	}
	externals["sync/atomic.LoadPointer"] = atomicLoad
	externals["sync/atomic.StorePointer"] = atomicStore

	// ---- time ----
	externals["time.Now"] = func(fr *frame, a []value) value {
		return fr.i.env.nowValue()
	}
	externals["time.runtimeNano"] = func(fr *frame, a []value) value {
		return fr.i.val(fr.i.env.clock(), types.Int64)
	}
	// wall-clock reading of a model time: the model keeps one fixed wall second and lets the
	// monotonic reading carry all differences, so UnixNano is "a 2026 instant + monotonic offset"
	// (no division; overflow behaviour against MaxInt64 as for real present-day instants)
	externals["(time.Time).UnixNano"] = func(fr *frame, a []value) value {
		i := fr.i
		tv, ok := a[0].(structure)
		if !ok || len(tv) < 2 {
			i.abort(abortUnsupported, "UnixNano on a non-model time")
		}
		if w, ok := tv[0].(uint64); !ok || w&hasMonotonic == 0 {
			i.abort(abortUnsupported, "UnixNano on a time without monotonic reading (not produced by the clock model)")
		}
		st := i.st
		// present-day instants, or the epoch of a testing/synctest bubble (2000-01-01) when the
		// harness is replayed inside one
		base := int64(1_790_000_000_000_000_000) - (1 << 41)
		if i.cfg.SynctestEpoch {
			base = int64(946_684_800_000_000_000) - (1 << 41)
		}
		return i.val(st.Add(st.BV(64, uint64(base)), i.term(tv[1])), types.Int64)
	}
	externals["time.runtimeIsBubbled"] = func(fr *frame, a []value) value { return false }
	externals["time.Sleep"] = func(fr *frame, a []value) value {
		e := fr.i.env
		e.sleeps = append(e.sleeps, a[0])
		// sleeping advances the clock by exactly d when d > 0
		d := fr.i.term(a[0])
		st := fr.i.st
		pos := st.SLt(st.BV(64, 0), d)
		e.clk = st.Ite(pos, st.Add(e.clock(), d), e.clock())
		return nil
	}
	harnessAPI["verifAdvance"] = func(fr *frame, a []value) value {
		i := fr.i
		d := i.newVar(nameArg(a[0]), "duration", types.Int64)
		if dv, ok := d.(*Sym); ok {
			st := i.st
			i.assume(st.And(st.SLe(st.BV(64, 0), dv.T), st.SLt(dv.T, st.BV(64, 1<<40))))
			i.env.clk = st.Add(i.env.clock(), dv.T)
		} else {
			dd := asInt64(d)
			if dd < 0 || dd >= 1<<40 {
				i.abort(abortPruned, "advance out of range")
			}
			i.env.clk = i.st.Add(i.env.clock(), i.st.BV(64, uint64(dd)))
		}
		return d
	}
	harnessAPI["verifTimeAgo"] = func(fr *frame, a []value) value {
		i := fr.i
		age := i.newVar(nameArg(a[0]), "duration", types.Int64)
		st := i.st
		at := i.term(age)
		if !at.IsConst() {
			i.assume(st.And(st.SLe(st.BV(64, 0), at), st.SLt(at, st.BV(64, 1<<40))))
		} else if int64(at.C) < 0 || int64(at.C) >= 1<<40 {
			i.abort(abortPruned, "age out of range")
		}
		return i.env.timeValue(st.Sub(i.env.clock(), at))
	}
	harnessAPI["verifSleeps"] = func(fr *frame, a []value) value {
		// returns the recorded time.Sleep durations as []int64
		out := make([]value, len(fr.i.env.sleeps))
		copy(out, fr.i.env.sleeps)
		return out
	}
}

const hasMonotonic = uint64(1) << 63

// clock start: 2^41 ns of monotonic time already elapsed, so ages up to 2^40 stay positive
func (e *envModel) clock() *Term {
	if e.clk == nil {
		e.clk = e.i.st.BV(64, 1<<41)
	}
	return e.clk
}

func (e *envModel) timeValue(mono *Term) value {
	i := e.i
	timePkg := i.prog.ImportedPackage("time")
	if timePkg == nil {
		i.abort(abortUnsupported, "time package not loaded")
	}
	tt := timePkg.Type("Time").Type()
	v := zero(tt).(structure)
	// wall: hasMonotonic | (sec since 1885 << 30) | nsec ; use a fixed wall second
	v[0] = uint64(hasMonotonic | (uint64(4_400_000_000) << 30))
	v[1] = i.val(mono, types.Int64)
	return v
}

func (e *envModel) nowValue() value {
	e.clockN++
	return e.timeValue(e.clock())
}

var _ = fmt.Sprint
