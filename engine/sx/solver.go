package sx

import (
	"bufio"
	"fmt"
	"io"
	"math"
	"os"
	"os/exec"
	"strconv"
	"strings"
	"time"
)

// Solver is one incremental SMT solver process (z3 -in, z3-new -in, or
// cvc5 --incremental). Declarations are global (survive pop); assertions are
// scoped.
type Solver struct {
	Kind           string // "z3", "z3-new", "cvc5"
	cmd            *exec.Cmd
	in             io.WriteCloser
	out            *bufio.Reader
	defined        map[int]bool
	ufs            map[string]bool
	defStk         [][]int    // term ids defined per open scope
	ufStk          [][]string // uf names declared per open scope
	store          *TermStore
	buf            strings.Builder
	depth          int
	dead           bool
	DeathIsUnknown bool // a process that ends mid-query (memory limit) counts as unknown, not as an error
	bornAt         int  // value of Queries when this process replaced an earlier one
	Log            io.Writer

	// stats
	Queries   int
	Sat       int
	Unsat     int
	Unknown   int
	Errors    int
	SolveTime time.Duration
	TimeoutMs int
}

func NewSolver(kind string, store *TermStore, timeoutMs int) (*Solver, error) {
	var cmd *exec.Cmd
	switch kind {
	case "z3":
		cmd = exec.Command("z3", "-in")
	case "z3-new":
		cmd = exec.Command("z3-new", "-in")
	case "cvc5":
		// address-space limit: a query that blows up ends the process (=> unknown) instead of the machine
		as := "2684354560"
		if v := os.Getenv("VERIF_FP_AS"); v != "" {
			as = v
		}
		cmd = exec.Command("prlimit", "--as="+as, "cvc5", "--incremental", "--fp-exp", fmt.Sprintf("--tlimit-per=%d", timeoutMs))
	default:
		return nil, fmt.Errorf("unknown solver %q", kind)
	}
	in, err := cmd.StdinPipe()
	if err != nil {
		return nil, err
	}
	outp, err := cmd.StdoutPipe()
	if err != nil {
		return nil, err
	}
	cmd.Stderr = cmd.Stdout
	if err := cmd.Start(); err != nil {
		return nil, err
	}
	s := &Solver{Kind: kind, cmd: cmd, in: in, out: bufio.NewReaderSize(outp, 1<<16),
		defined: map[int]bool{}, ufs: map[string]bool{}, store: store, TimeoutMs: timeoutMs}
	s.raw("(set-option :produce-models true)\n")
	if kind != "cvc5" {
		s.raw(fmt.Sprintf("(set-option :timeout %d)\n", timeoutMs))
	}
	s.raw("(set-logic ALL)\n")
	return s, nil
}

func (s *Solver) Close() {
	if s == nil || s.dead {
		return
	}
	s.dead = true
	s.in.Close()
	s.cmd.Process.Kill()
	s.cmd.Wait()
}

func (s *Solver) raw(txt string) { s.buf.WriteString(txt) }

func (s *Solver) flush() error {
	if s.buf.Len() == 0 {
		return nil
	}
	txt := s.buf.String()
	s.buf.Reset()
	if s.Log != nil {
		io.WriteString(s.Log, txt)
	}
	_, err := io.WriteString(s.in, txt)
	return err
}

// declare emits declarations for every variable / UF below t not yet known in
// the open scopes, and returns the non-leaf nodes of t in dependency order.
func (s *Solver) declare(t *Term) []*Term {
	var order []*Term
	if t.Op == OpConst {
		return nil
	}
	seen := map[int]bool{}
	type fr struct {
		t *Term
		i int
	}
	stack := []fr{{t, 0}}
	for len(stack) > 0 {
		top := &stack[len(stack)-1]
		if top.i == 0 && (top.t.Op == OpConst || seen[top.t.ID]) {
			stack = stack[:len(stack)-1]
			continue
		}
		if top.i < len(top.t.Args) {
			a := top.t.Args[top.i]
			top.i++
			if a.Op != OpConst && !seen[a.ID] {
				stack = append(stack, fr{a, 0})
			}
			continue
		}
		n := top.t
		stack = stack[:len(stack)-1]
		if seen[n.ID] {
			continue
		}
		seen[n.ID] = true
		if n.Op == OpVar {
			if !s.defined[n.ID] {
				s.defined[n.ID] = true
				if len(s.defStk) > 0 {
					s.defStk[len(s.defStk)-1] = append(s.defStk[len(s.defStk)-1], n.ID)
				}
				s.raw(fmt.Sprintf("(declare-const %s %s)\n", n.Name, n.Sort.SMT()))
			}
			continue
		}
		if n.Op == OpUF && !s.ufs[n.Name] {
			s.ufs[n.Name] = true
			if len(s.ufStk) > 0 {
				s.ufStk[len(s.ufStk)-1] = append(s.ufStk[len(s.ufStk)-1], n.Name)
			}
			sig := s.store.UFs[n.Name]
			var as []string
			for _, a := range sig.args {
				as = append(as, a.SMT())
			}
			s.raw(fmt.Sprintf("(declare-fun %s (%s) %s)\n", n.Name, strings.Join(as, " "), sig.res.SMT()))
		}
		order = append(order, n)
	}
	return order
}

func (s *Solver) Push() {
	s.raw("(push 1)\n")
	s.depth++
	s.defStk = append(s.defStk, nil)
	s.ufStk = append(s.ufStk, nil)
}

func (s *Solver) Pop() {
	s.raw("(pop 1)\n")
	s.depth--
	n := len(s.defStk) - 1
	for _, id := range s.defStk[n] {
		delete(s.defined, id)
	}
	for _, u := range s.ufStk[n] {
		delete(s.ufs, u)
	}
	s.defStk = s.defStk[:n]
	s.ufStk = s.ufStk[:n]
}

// Assert sends t as one self-contained assertion; shared subterms are bound
// with nested lets (no define-fun: z3's get-value becomes very slow when
// thousands of macros are in scope).
func (s *Solver) Assert(t *Term) {
	order := s.declare(t)
	if len(order) == 0 {
		s.raw("(assert " + ref(t) + ")\n")
		return
	}
	s.raw("(assert ")
	for _, n := range order[:len(order)-1] {
		s.raw("(let ((t" + strconv.Itoa(n.ID) + " " + body(n) + ")) ")
	}
	s.raw(body(order[len(order)-1]))
	for range order[:len(order)-1] {
		s.raw(")")
	}
	s.raw(")\n")
}

// Check runs check-sat in the current scope.
func (s *Solver) Check() string {
	if s.dead {
		return "unknown"
	}
	s.raw("(check-sat)\n")
	t0 := time.Now()
	if err := s.flush(); err != nil {
		s.dead = true
		if !s.DeathIsUnknown {
			s.Errors++
		}
		return "unknown"
	}
	res := "unknown"
	for {
		line, err := s.out.ReadString('\n')
		if err != nil {
			// the process ended (for the FP solver: its address-space limit): resource-out
			s.dead = true
			if !s.DeathIsUnknown {
				s.Errors++
			}
			break
		}
		line = strings.TrimSpace(line)
		if line == "" {
			continue
		}
		if line == "sat" || line == "unsat" || line == "unknown" {
			res = line
			break
		}
		if strings.HasPrefix(line, "(error") && s.DeathIsUnknown && strings.Contains(line, "bad_alloc") {
			// the FP solver hit its address-space limit: resource-out, and the process is replaced
			s.dead = true
			res = "unknown"
			break
		}
		if strings.HasPrefix(line, "(error") {
			s.Errors++
			if s.Log != nil {
				fmt.Fprintf(s.Log, "; SOLVER ERROR: %s\n", line)
			}
			// keep reading until verdict; verdict is then distrusted
			res = "error:" + line
			// the verdict line still follows for check-sat
			continue
		}
		if strings.HasPrefix(res, "error:") {
			continue
		}
		// unexpected noise (e.g. cvc5 interrupted by timeout prints unknown)
		if strings.Contains(line, "timeout") || strings.Contains(line, "interrupted") {
			res = "unknown"
			break
		}
	}
	if strings.HasPrefix(res, "error:") {
		res = "unknown"
	}
	s.SolveTime += time.Since(t0)
	s.Queries++
	switch res {
	case "sat":
		s.Sat++
	case "unsat":
		s.Unsat++
	default:
		s.Unknown++
	}
	return res
}

// CheckWith asks whether the current assertions plus extra are satisfiable.
// If keepOnSat, the scope is left pushed (caller must Pop) so a model can be read.
func (s *Solver) CheckWith(extra *Term, keepOnSat bool) string {
	s.Push()
	s.Assert(extra)
	r := s.Check()
	if !(keepOnSat && r == "sat") {
		s.Pop()
	}
	return r
}

// Model reads values for vars after a sat verdict. Returns raw bit patterns.
func (s *Solver) Model(vars []*Term) (map[int]uint64, error) {
	out := map[int]uint64{}
	if len(vars) == 0 {
		return out, nil
	}
	var names []string
	for _, v := range vars {
		if !s.defined[v.ID] {
			continue // never sent: unconstrained
		}
		names = append(names, v.Name)
	}
	if len(names) == 0 {
		return out, nil
	}
	s.raw("(get-value (" + strings.Join(names, " ") + "))\n(echo \"#done\")\n")
	if err := s.flush(); err != nil {
		return nil, err
	}
	var sb strings.Builder
	for {
		line, err := s.out.ReadString('\n')
		if err != nil {
			return nil, err
		}
		if strings.Contains(line, "#done") {
			break
		}
		sb.WriteString(line)
	}
	txt := sb.String()
	if strings.Contains(txt, "(error") {
		return nil, fmt.Errorf("solver: %s", txt)
	}
	toks := tokenize(txt)
	pos := 0
	expr, err := parseSexp(toks, &pos)
	if err != nil {
		return nil, err
	}
	byName := map[string]*Term{}
	for _, v := range vars {
		byName[v.Name] = v
	}
	for _, pair := range expr.list {
		if len(pair.list) != 2 {
			continue
		}
		v := byName[pair.list[0].atom]
		if v == nil {
			continue
		}
		bitsv, err := valueBits(pair.list[1], v.Sort)
		if err != nil {
			return nil, err
		}
		out[v.ID] = bitsv
	}
	return out, nil
}

type sexp struct {
	atom string
	list []*sexp
}

func tokenize(s string) []string {
	var toks []string
	i := 0
	for i < len(s) {
		c := s[i]
		switch {
		case c == '(' || c == ')':
			toks = append(toks, string(c))
			i++
		case c == ' ' || c == '\n' || c == '\t' || c == '\r':
			i++
		default:
			j := i
			for j < len(s) && !strings.ContainsRune("() \n\t\r", rune(s[j])) {
				j++
			}
			toks = append(toks, s[i:j])
			i = j
		}
	}
	return toks
}

func parseSexp(toks []string, pos *int) (*sexp, error) {
	if *pos >= len(toks) {
		return nil, fmt.Errorf("sexp: eof")
	}
	t := toks[*pos]
	*pos++
	if t == "(" {
		e := &sexp{}
		for *pos < len(toks) && toks[*pos] != ")" {
			c, err := parseSexp(toks, pos)
			if err != nil {
				return nil, err
			}
			e.list = append(e.list, c)
		}
		*pos++
		return e, nil
	}
	return &sexp{atom: t}, nil
}

func bvLit(a string) (uint64, uint, bool) {
	if strings.HasPrefix(a, "#x") {
		v, err := strconv.ParseUint(a[2:], 16, 64)
		return v, uint(len(a)-2) * 4, err == nil
	}
	if strings.HasPrefix(a, "#b") {
		v, err := strconv.ParseUint(a[2:], 2, 64)
		return v, uint(len(a) - 2), err == nil
	}
	return 0, 0, false
}

func valueBits(e *sexp, sort Sort) (uint64, error) {
	switch {
	case sort == SBool:
		if e.atom == "true" {
			return 1, nil
		}
		return 0, nil
	case sort.IsBV():
		if v, _, ok := bvLit(e.atom); ok {
			return v, nil
		}
		// (_ bv10 32)
		if len(e.list) == 3 && e.list[0].atom == "_" && strings.HasPrefix(e.list[1].atom, "bv") {
			v, err := strconv.ParseUint(e.list[1].atom[2:], 10, 64)
			return v, err
		}
	case sort.IsFP():
		eb, sbits := uint(11), uint(52)
		if sort == SF32 {
			eb, sbits = 8, 23
		}
		if len(e.list) == 4 && e.list[0].atom == "fp" {
			sg, _, _ := bvLit(e.list[1].atom)
			ex, _, _ := bvLit(e.list[2].atom)
			mn, _, _ := bvLit(e.list[3].atom)
			return sg<<(eb+sbits) | ex<<sbits | mn, nil
		}
		if len(e.list) == 4 && e.list[0].atom == "_" {
			var f float64
			switch e.list[1].atom {
			case "NaN":
				f = math.NaN()
			case "+oo":
				f = math.Inf(1)
			case "-oo":
				f = math.Inf(-1)
			case "+zero":
				f = 0
			case "-zero":
				f = math.Copysign(0, -1)
			default:
				return 0, fmt.Errorf("fp value %v", e.list[1].atom)
			}
			if sort == SF32 {
				return uint64(math.Float32bits(float32(f))), nil
			}
			return math.Float64bits(f), nil
		}
	}
	return 0, fmt.Errorf("cannot parse model value %+v for sort %v", e, sort)
}
