package sx

import (
	"fmt"
	"go/types"
	"math"
	"os"
	"regexp"
	"sort"
	"strings"
	"sync"
	"time"

	"golang.org/x/tools/go/ssa"
)

type Config struct {
	MaxSteps      int    // instructions per path
	MaxDepth      int    // call depth
	MaxEnum       int    // largest range enumerated for a symbolic int
	MaxAlloc      int    // largest concrete allocation (elements)
	MaxPaths      int    // per harness
	Solver        string // z3 | z3-new | cvc5 : FP-free queries
	FPSolver      string // solver for queries that mention floating point
	TimeoutMs     int    // per query
	FPTimeoutMs   int    // per floating-point query (default min(TimeoutMs, 60 s))
	SynctestEpoch bool   // native replay runs in a testing/synctest bubble: wall clock starts at 2000-01-01
	ForkHardFP    bool   // do not ask the solver about branches on symbolic FP division / sqrt: explore both sides
	MapOrderMax   int    // maps with 2..k entries are ranged in every order
	Workers       int
	Verbose       bool
	ModulePath    string      // packages under this prefix are (re)initialised per path
	LogSMT        string      // file prefix for SMT logs (debug)
	StopOnFirst   bool        // stop exploring after first violation
	CrossCheck    string      // second solver to re-ask every unsat assertion (thorough)
	Concrete      []ReplayVal // concrete mode: nondets are read from this vector
}

func DefaultConfig() Config {
	return Config{MaxSteps: 3_000_000, MaxDepth: 400, MaxEnum: 64, MaxAlloc: 1 << 20, MaxPaths: 200000,
		Solver: "z3", FPSolver: "cvc5", TimeoutMs: 60000, MapOrderMax: 1, Workers: 8, ModulePath: "github.com/Vedant9500/WTF"}
}

var debugDecisions = os.Getenv("VERIF_DEBUG_DECISIONS") != ""

type abortKind int

const (
	abortPruned abortKind = iota // assume(false) / infeasible
	abortUnsupported
	abortBudget
	abortInternal
	abortStop
)

type abortSignal struct {
	kind abortKind
	msg  string
}

func (i *interpreter) abort(kind abortKind, msg string) {
	panic(&abortSignal{kind, msg})
}

func (i *interpreter) abortAt(fr *frame, kind abortKind, msg string) {
	where := fr.fn.String()
	if fr.curInstr != nil {
		where += " @ " + fr.site(fr.curInstr.Pos()) + " [" + fr.curInstr.String() + "]"
	}
	var stk []string
	for f := fr.caller; f != nil && len(stk) < 8; f = f.caller {
		stk = append(stk, f.fn.String())
	}
	panic(&abortSignal{kind, msg + " in " + where + " <- " + strings.Join(stk, " <- ")})
}

type targetPanic struct{ v value }

func (p targetPanic) String() string { return toString(p.v) }

type NondetRec struct {
	Name string
	Kind string // int, int64, byte, bool, float64, float32, choice, ...
	T    *Term  // nil for concrete choices
	Conc int64  // value for choices
}

type symAlloc struct {
	site string
	what string
	size *Sym
}

// Finding is a violated assertion or an escaped panic with a witness.
type Finding struct {
	Harness       string            `json:"harness"`
	Kind          string            `json:"kind"` // "assert" | "panic" | "alloc"
	Msg           string            `json:"msg"`
	Site          string            `json:"site,omitempty"`
	Decisions     []int             `json:"decisions"`
	Vector        []ReplayVal       `json:"vector"`
	Named         map[string]string `json:"named,omitempty"`
	NeedsMapOrder bool              `json:"needs_map_order,omitempty"`
}

type ReplayVal struct {
	Name string `json:"name"`
	Kind string `json:"kind"`
	Bits uint64 `json:"bits"`
	Show string `json:"show"`
}

type PathResult struct {
	Prefix        []int
	Decisions     []int
	Status        string // ok | panic | pruned | unsupported | budget | internal
	Msg           string
	Findings      []Finding
	Unknowns      []string // inconclusive obligations
	Reached       map[string]int
	Asserts       int // obligations posed on this path
	Syntactic     int // decided without solver (constant true)
	Solver        int // decided unsat by solver
	Steps         int
	Forks         [][]int // new prefixes discovered
	Sample        string
	Trace         []string
	StoredLabels  map[string]bool
	UnlockedLoads map[string]string
	Accesses      int
}

// interpreter is per-worker; path state is reset by resetPath.
type interpreter struct {
	prog               *ssa.Program
	cfg                *Config
	st                 *TermStore
	solver             *Solver // BV solver (z3): receives only FP-free constraints
	fsolver            *Solver // FP-capable solver (cvc5): receives every constraint; started lazily
	fpending           []*Term // constraints not yet sent to fsolver
	pcHasF             bool
	xsolver            *Solver // cross-check solver (optional)
	sizes              types.Sizes
	runtimeErrorString types.Type
	harnessName        string

	shared     map[*ssa.Global]*value // std / third-party globals, initialised once per worker
	sharedInit map[*ssa.Package]bool

	// per path
	globals         map[*ssa.Global]*value
	pathInit        map[*ssa.Package]bool
	prefix          []int
	decisions       []int
	forks           [][]int
	pc              []*Term
	steps           int
	depth           int
	allocs          int
	nondets         []NondetRec
	reached         map[string]int
	findings        []Finding
	unknowns        []string
	asserts         int
	syntactic       int
	solved          int
	panicSite       string
	nonASCII        int
	symAllocs       []symAlloc
	hugeAllocs      []string
	mapOrderMax     int
	mapOrderBig     bool
	mapRangesForked int
	mapRangesFixed  int
	fixedRangeSites map[string]int
	usedMapOrder    bool
	env             *envModel // fs / clock stubs (per path)
	lockst          *lockState
	storeHook       func(fr *frame, instr *ssa.Store, addr *value)
	mapWriteHook    func(fr *frame, instr *ssa.MapUpdate, m *smap)

	callLog map[*ssa.Function]int // per worker, cumulative

	inInit          int
	guards          []*guardSet
	loadHook        func(fr *frame, addr *value)
	mapAccessHook   func(fr *frame, m *smap, write bool)
	storedLabels    map[string]bool
	unlockedLoads   map[string]string
	disciplineSeen  map[string]bool
	accessCount     int
	unknownBranches int
	allocBound      int64
	allocBoundSet   bool
	allocMsg        string
	allocSites      map[string]int
	sliceHits       int
	franges         map[int]frange
	whyLog          []string
	model           map[int]uint64 // a model of the current PC (nil = none cached)
	modelHits       int
	whyCount        map[string]int
	ranges          map[int]urange
	rangeDecided    int
	fstarted        bool
	locks           map[*value]*lockInfo
	pools           map[*value][]value
	syncMaps        map[*value][][2]value
	lockEvents      int
	atomicOps       int
	atomicHook      func(fr *frame, p *value, write bool)
	atomicLoaded    map[*value]int // cell -> operation (call made by the harness) in which it was last read with an atomic load
	callEpoch       int
	known           map[int]bool
	concPos         int
	trace           []string
	regexps         map[*value]*reClass
	regexpsSeen     map[string]int
	directInit      *ssa.Function
	curFrame        *frame
	nonASCIITotal   int
	logPoints       [][2]*Term
	powPoints       [][3]*Term
	opaqueStrings   int
	prints          int
	assertKind      string // "" (assert) or "model": kind recorded for findings of the current assertion
	nativeRegexps   map[*value]*regexp.Regexp
	stdout          strings.Builder // what the code under test printed on this path
	stdoutOpaque    int
	lastCaught      string
	lastCaughtSite  string
}

func (i *interpreter) resetPath(prefix []int) {
	i.globals = map[*ssa.Global]*value{}
	i.pathInit = map[*ssa.Package]bool{}
	i.prefix = prefix
	i.decisions = i.decisions[:0]
	i.forks = nil
	i.pc = i.pc[:0]
	i.steps = 0
	i.depth = 0
	i.stdout.Reset()
	i.accessCount = 0
	i.allocs = 0
	i.nondets = nil
	i.reached = map[string]int{}
	i.findings = nil
	i.unknowns = nil
	i.asserts, i.syntactic, i.solved = 0, 0, 0
	i.panicSite = ""
	i.nonASCIITotal += i.nonASCII
	i.nonASCII = 0
	i.logPoints = nil
	i.guards = nil
	i.loadHook = nil
	i.mapAccessHook = nil
	i.storedLabels = map[string]bool{}
	i.unlockedLoads = map[string]string{}
	i.disciplineSeen = map[string]bool{}
	i.allocBoundSet = false
	i.franges = map[int]frange{}
	i.whyLog = nil
	i.model = map[int]uint64{}
	i.ranges = map[int]urange{}
	i.pcHasF = false
	i.locks = nil
	i.pools = nil
	i.syncMaps = nil
	i.atomicHook = nil
	i.atomicLoaded = nil
	i.known = map[int]bool{}
	i.concPos = 0
	i.trace = nil
	i.regexps = nil
	i.powPoints = nil
	i.symAllocs = nil
	i.hugeAllocs = nil
	i.mapOrderMax = i.cfg.MapOrderMax
	i.mapOrderBig = false
	i.usedMapOrder = false
	i.env = newEnvModel(i)
	i.lockst = nil
	i.storeHook = nil
	i.mapWriteHook = nil
}

// ---- decisions ----

func (i *interpreter) assume(c *Term) {
	if c.IsConst() {
		if c.C == 0 {
			i.abort(abortPruned, "assume(false)")
		}
		return
	}
	if i.cfg.ForkHardFP && c.HardF {
		// per-harness over-approximation: a constraint through a symbolic FP division / sqrt is
		// kept as a syntactic fact only; later queries are posed without it (more paths, never
		// fewer; a model that contradicts it fails native replay and is reported inconclusive)
		i.noteKnown(c, true)
		return
	}
	i.pc = append(i.pc, c)
	if i.model != nil {
		if v, ok := evalTerm(c, i.model, map[int]uint64{}); !ok || v != 1 {
			i.model = nil
		}
	}
	i.noteKnown(c, true)
	if c.HasF {
		i.pcHasF = true
	} else {
		i.solver.Assert(c)
	}
	if i.xsolver != nil {
		i.xsolver.Assert(c)
	}
}

// fp returns the FP-capable solver process (used only for standalone sliced queries).
func (i *interpreter) fp() *Solver {
	// standalone queries are stateless: a dead (memory limit) or long-lived (cvc5 leaks under
	// push/pop) process is simply replaced; counters carry over
	if old := i.fsolver; old != nil && (old.dead || old.Queries-old.bornAt >= 150) {
		old.Close()
		i.fsolver = nil
		defer func(old *Solver) {
			n := i.fsolver
			if n == nil {
				return
			}
			n.Queries, n.Sat, n.Unsat, n.Unknown, n.Errors, n.SolveTime = old.Queries, old.Sat, old.Unsat, old.Unknown, old.Errors, old.SolveTime
			n.bornAt = old.Queries
		}(old)
	}
	if i.fsolver == nil {
		to := i.cfg.TimeoutMs
		if i.cfg.FPTimeoutMs > 0 {
			to = i.cfg.FPTimeoutMs
		} else if to > 60000 {
			to = 60000
		}
		s, err := NewSolver(i.cfg.FPSolver, i.st, to)
		if err != nil {
			i.abort(abortInternal, "cannot start FP solver: "+err.Error())
		}
		if i.cfg.LogSMT != "" {
			f, _ := os.Create(fmt.Sprintf("%s.%s.fp.smt2", i.cfg.LogSMT, i.harnessName))
			s.Log = f
		}
		s.DeathIsUnknown = true
		i.fsolver = s
	}
	return i.fsolver
}

// checkQ decides PC ∧ c. FP-free components go to the incremental BV solver;
// anything whose variable-connected slice mentions floating point goes through
// the sliced, cached FP path. On sat a model of the relevant variables may be
// returned (nil when the BV solver answered; use captureModel then).
func (i *interpreter) checkQ(c *Term) (string, map[int]uint64, bool) {
	if !c.HasF && !i.pcHasF {
		return i.solver.CheckWith(c, false), nil, false
	}
	_, hasF := i.sliceFor(c)
	if !hasF {
		return i.solver.CheckWith(c, false), nil, false
	}
	r, m := i.sliceCheck(c)
	return r, m, true
}

// noteKnown records truth values implied syntactically by an assumed term.
func (i *interpreter) noteKnown(c *Term, v bool) {
	if c.IsConst() {
		return
	}
	i.known[c.ID] = v
	i.learnRange(c, v)
	i.learnFRange(c, v)
	switch c.Op {
	case OpNot:
		i.noteKnown(c.Args[0], !v)
	case OpAnd:
		if v {
			i.noteKnown(c.Args[0], true)
			i.noteKnown(c.Args[1], true)
		}
	case OpOr:
		if !v {
			i.noteKnown(c.Args[0], false)
			i.noteKnown(c.Args[1], false)
		}
	}
}

// simp replaces a Bool term by a constant when the path condition fixes it syntactically.
func (i *interpreter) simp(c *Term) *Term {
	if c.IsConst() {
		return c
	}
	if v, ok := i.evalRanges(c); ok {
		return i.st.Bool(v)
	}
	switch c.Op {
	case OpAnd:
		a, b := i.simp(c.Args[0]), i.simp(c.Args[1])
		if a != c.Args[0] || b != c.Args[1] {
			return i.st.And(a, b)
		}
	case OpOr:
		a, b := i.simp(c.Args[0]), i.simp(c.Args[1])
		if a != c.Args[0] || b != c.Args[1] {
			return i.st.Or(a, b)
		}
	case OpNot:
		a := i.simp(c.Args[0])
		if a != c.Args[0] {
			return i.st.Not(a)
		}
	}
	return c
}

// reduce rewrites t under the facts of the path condition: Bool subterms fixed
// by known atoms / intervals become constants and everything above them is
// re-folded. The result is equal to t on every state satisfying the PC.
func (i *interpreter) reduce(t *Term) *Term {
	if t.IsConst() || t.Op == OpVar {
		if t.Sort == SBool {
			return i.simp(t)
		}
		return t
	}
	memo := map[int]*Term{}
	var rec func(t *Term) *Term
	rec = func(t *Term) *Term {
		if t.IsConst() {
			return t
		}
		if r, ok := memo[t.ID]; ok {
			return r
		}
		var r *Term
		if t.Sort == SBool {
			if v, ok := i.evalRanges(t); ok {
				r = i.st.Bool(v)
				memo[t.ID] = r
				return r
			}
		}
		if t.Op == OpVar {
			memo[t.ID] = t
			return t
		}
		args := make([]*Term, len(t.Args))
		changed := false
		for k, a := range t.Args {
			args[k] = rec(a)
			if args[k] != a {
				changed = true
			}
		}
		r = t
		if changed {
			r = i.st.Make(t, args)
		}
		memo[t.ID] = r
		return r
	}
	return rec(t)
}

// reduceVal applies reduce to a symbolic scalar value.
func (i *interpreter) reduceVal(v value) value {
	sv, ok := v.(*Sym)
	if !ok {
		return v
	}
	r := i.reduce(sv.T)
	if r == sv.T {
		return v
	}
	return i.val(r, sv.K)
}

// decide resolves a symbolic condition, forking the exploration.
func (i *interpreter) decide(c *Term, why string) bool {
	if c.IsConst() {
		return c.C == 1
	}
	if v, ok := i.evalRanges(c); ok {
		// implied by the path condition (syntactically / by interval facts): no fork, no decision slot
		i.rangeDecided++
		return v
	}
	pos := len(i.decisions)
	if pos < len(i.prefix) {
		d := i.prefix[pos]
		i.decisions = append(i.decisions, d)
		if debugDecisions {
			i.whyLog = append(i.whyLog, fmt.Sprintf("#%d %s => %v (replayed)", pos, why, d))
		}
		if d == 1 {
			i.assume(c)
		} else {
			i.assume(i.st.Not(c))
		}
		return d == 1
	}
	if i.whyCount != nil {
		i.whyCount[why]++
	}
	if debugDecisions {
		defer func() {
			i.whyLog = append(i.whyLog, fmt.Sprintf("#%d %s -> %v", len(i.decisions)-1, why, i.decisions[len(i.decisions)-1]))
		}()
	}
	nc := i.st.Not(c)
	// the cached model witnesses one side without a query
	mv, mok := uint64(0), false
	if i.model != nil {
		mv, mok = evalTerm(c, i.model, map[int]uint64{})
	}
	var rt, rf string
	if i.cfg.ForkHardFP && c.HardF {
		// declared per harness: feasibility of a branch on a symbolic quotient / square root is
		// not asked (the FP solver does not answer in useful time); both sides are explored
		rt, rf = "unknown", "unknown"
		if i.whyCount != nil {
			i.whyCount["not asked (FP division / sqrt): both sides explored"]++
		}
	} else if mok && mv == 1 {
		rt = "sat"
		i.modelHits++
	} else {
		rt = i.checkSide(c) // a sat answer refreshes the cached model
	}
	if rt == "unsat" {
		i.decisions = append(i.decisions, 0)
		i.assume(nc)
		return false
	}
	if rf == "unknown" {
		// not asked (see above)
	} else if mok && mv == 0 {
		rf = "sat"
		i.modelHits++
	} else {
		rf, _, _ = i.checkQ(nc)
	}
	if rf == "unsat" {
		i.decisions = append(i.decisions, 1)
		i.assume(c)
		return true
	}
	if rt == "unknown" || rf == "unknown" {
		// both sides are explored: sound (an infeasible path only adds vacuous obligations)
		i.unknownBranches++
	}
	// both feasible: take true now, queue false
	alt := append(append([]int(nil), i.decisions...), 0)
	i.forks = append(i.forks, alt)
	i.decisions = append(i.decisions, 1)
	i.assume(c)
	return true
}

// checkSide asks whether PC ∧ c is satisfiable; on sat it captures a model of
// the PC extended by c into the model cache.
func (i *interpreter) checkSide(c *Term) string {
	if c.HasF || i.pcHasF {
		if _, hasF := i.sliceFor(c); hasF {
			r, m := i.sliceCheck(c)
			if r == "sat" && m != nil && i.model != nil {
				// the slice is independent of the rest: overriding its variables keeps a model
				nm := make(map[int]uint64, len(i.model)+len(m))
				for k, v := range i.model {
					nm[k] = v
				}
				for k, v := range m {
					nm[k] = v
				}
				i.model = nm
			}
			return r
		}
	}
	r := i.solver.CheckWith(c, true)
	if r != "sat" {
		return r
	}
	if !i.pcHasF {
		if m, err := i.solver.Model(i.st.Vars); err == nil {
			i.model = m
		}
	}
	i.solver.Pop()
	return r
}

// fullModel returns sat/unsat/unknown for PC ∧ extra (extra may be nil) and a
// model of all variables: BV solver for the FP-free constraints, sliced FP
// queries for every variable-connected component that mentions floating point.
func (i *interpreter) fullModel(extra *Term) (string, map[int]uint64) {
	pushed := false
	if extra != nil && !extra.HasF {
		i.solver.Push()
		i.solver.Assert(extra)
		pushed = true
	}
	defer func() {
		if pushed {
			i.solver.Pop()
		}
	}()
	r := i.solver.Check()
	if r != "sat" {
		return r, nil
	}
	m, err := i.solver.Model(i.st.Vars)
	if err != nil {
		return "unknown", nil
	}
	if !i.pcHasF && (extra == nil || !extra.HasF) {
		return "sat", m
	}
	// FP components: each FP-mentioning constraint (and extra) with its slice
	done := map[int]bool{}
	var fcons []*Term
	for _, p := range i.pc {
		if p.HasF {
			fcons = append(fcons, p)
		}
	}
	saved := i.pc
	if extra != nil {
		i.pc = append(append([]*Term(nil), i.pc...), extra)
		if extra.HasF {
			fcons = append(fcons, extra)
		}
	}
	defer func() { i.pc = saved }()
	for _, f := range fcons {
		if done[f.ID] {
			continue
		}
		cons, _ := i.sliceFor(f)
		for _, c := range cons {
			done[c.ID] = true
		}
		r, fm := i.sliceCheck(f)
		if r != "sat" {
			return r, nil
		}
		for k, v := range fm {
			m[k] = v
		}
	}
	return "sat", m
}

// choose is an unconstrained n-way fork.
func (i *interpreter) choose(n int, why string) int {
	if n <= 1 {
		return 0
	}
	pos := len(i.decisions)
	if pos < len(i.prefix) {
		d := i.prefix[pos]
		i.decisions = append(i.decisions, d)
		return d
	}
	for k := 1; k < n; k++ {
		alt := append(append([]int(nil), i.decisions...), k)
		i.forks = append(i.forks, alt)
	}
	i.decisions = append(i.decisions, 0)
	return 0
}

// ---- model extraction ----

func (i *interpreter) modelVector(m map[int]uint64) ([]ReplayVal, map[string]string, error) {
	if m == nil {
		return nil, nil, fmt.Errorf("no model")
	}
	var out []ReplayVal
	named := map[string]string{}
	for _, n := range i.nondets {
		rv := ReplayVal{Name: n.Name, Kind: n.Kind}
		if n.T == nil {
			rv.Bits = uint64(n.Conc)
			rv.Show = fmt.Sprint(n.Conc)
		} else {
			rv.Bits = m[n.T.ID]
			rv.Show = showBits(rv.Bits, n.Kind)
		}
		out = append(out, rv)
		if _, dup := named[n.Name]; !dup {
			named[n.Name] = rv.Show
		} else {
			named[n.Name] += "," + rv.Show
		}
	}
	return out, named, nil
}

func showBits(b uint64, kind string) string {
	switch kind {
	case "float64":
		return fmt.Sprintf("%v (0x%016x)", math.Float64frombits(b), b)
	case "float32":
		return fmt.Sprintf("%v (0x%08x)", math.Float32frombits(uint32(b)), b)
	case "bool":
		return fmt.Sprint(b == 1)
	case "byte":
		if b >= 0x20 && b < 0x7f {
			return fmt.Sprintf("0x%02x '%c'", b, rune(b))
		}
		return fmt.Sprintf("0x%02x", b)
	case "int", "int64":
		return fmt.Sprint(int64(b))
	case "int32":
		return fmt.Sprint(int32(b))
	case "int16":
		return fmt.Sprint(int16(b))
	case "int8":
		return fmt.Sprint(int8(b))
	}
	return fmt.Sprint(b)
}

func (i *interpreter) recordFinding(kind, msg, site string, m map[int]uint64) {
	f := Finding{Harness: i.harnessName, Kind: kind, Msg: msg, Site: site,
		Decisions: append([]int(nil), i.decisions...), NeedsMapOrder: i.usedMapOrder}
	vec, named, err := i.modelVector(m)
	if err != nil {
		i.unknowns = append(i.unknowns, "model extraction failed: "+err.Error())
	}
	f.Vector, f.Named = vec, named
	i.findings = append(i.findings, f)
}

func (i *interpreter) findingKind() string {
	if i.assertKind != "" {
		return i.assertKind
	}
	return "assert"
}

// checkAssert poses PC ∧ ¬c.
func (i *interpreter) checkAssert(c *Term, msg string) {
	i.asserts++
	if c.IsConst() {
		if c.C == 1 {
			i.syntactic++
			return
		}
		// constant false on a feasible path: need a model of the PC
		r, m := i.fullModel(nil)
		if r == "sat" {
			i.recordFinding(i.findingKind(), msg, "", m)
		} else if r == "unknown" {
			i.unknowns = append(i.unknowns, "assert(false) reached, PC unknown: "+msg)
		}
		i.abort(abortStop, "assertion failed: "+msg)
	}
	nc := i.st.Not(c)
	r, _, _ := i.checkQ(nc)
	switch r {
	case "unsat":
		i.solved++
		if i.xsolver != nil && !c.HasF && !i.pcHasF {
			r2 := i.xsolver.CheckWith(nc, false)
			if r2 == "sat" {
				i.unknowns = append(i.unknowns, "SOLVER DISAGREEMENT on: "+msg)
			} else if r2 == "unknown" {
				i.unknowns = append(i.unknowns, "cross-check unknown on: "+msg)
			}
		}
	case "sat":
		fr, m := i.fullModel(nc)
		if fr == "sat" {
			i.recordFinding(i.findingKind(), msg, "", m)
		} else {
			i.unknowns = append(i.unknowns, "violation witness could not be completed to a full model ("+fr+"): "+msg)
		}
		// continue under the assertion if still feasible
		if rc, _, _ := i.checkQ(c); rc == "unsat" {
			i.abort(abortStop, "assertion fails on whole path: "+msg)
		}
		i.assume(c)
	default:
		i.unknowns = append(i.unknowns, "solver unknown on: "+msg)
		i.assume(c)
	}
}

// ---- globals & package init ----

func (i *interpreter) isModulePkg(p *ssa.Package) bool {
	return p != nil && p.Pkg != nil && strings.HasPrefix(p.Pkg.Path(), i.cfg.ModulePath)
}

var initAllow = map[string]bool{
	"unicode": true, "unicode/utf8": true, "strings": true, "sort": true,
	"math": true, "math/bits": true, "container/list": true, "strconv": true, "io": true,
	"io/fs": true, "internal/oserror": true, "bytes": true, "slices": true, "maps": true, "cmp": true,
	"github.com/sahilm/fuzzy": true, "encoding/binary": true, "bufio": true, "internal/bytealg": true,
	"internal/stringslite": true, "internal/itoa": true, "unicode/utf16": true, "path/filepath": true,
	"path": true, "internal/filepathlite": true, "iter": true, "internal/byteorder": true,
	"internal/strconv": true,
}

// zeroOK packages: globals are left zero without running init.
var zeroOK = map[string]bool{
	"errors": true, "internal/reflectlite": true, "unsafe": true, "internal/goarch": true, "time": true, "sync": true, "sync/atomic": true, "os": true, "syscall": true, "runtime": true,
	"fmt": true, "log": true, "regexp": true, "reflect": true, "internal/poll": true,
	"gopkg.in/yaml.v3": true, "encoding/json": true, "crypto/sha256": true, "internal/godebug": true,
	"github.com/spf13/cobra": true, "github.com/spf13/pflag": true, "internal/race": true,
	"math/rand": true, "internal/abi": true, "internal/cpu": true, "regexp/syntax": true,
	"text/tabwriter": true, "os/exec": true, "os/user": true, "os/signal": true, "context": true,
	"text/template": true, "encoding/base64": true, "encoding/hex": true, "hash/crc32": true,
	"embed": true, "testing": true, "flag": true, "internal/testlog": true, "runtime/debug": true,
	"internal/sync": true, "unique": true, "weak": true, "crypto/internal/fips140/sha256": true,
}

func (i *interpreter) globalAddr(fr *frame, g *ssa.Global) *value {
	i.curFrame = fr
	if r, ok := i.globals[g]; ok {
		return r
	}
	if r, ok := i.shared[g]; ok {
		return r
	}
	pkg := g.Pkg
	i.ensureInit(pkg)
	if r, ok := i.globals[g]; ok {
		return r
	}
	if r, ok := i.shared[g]; ok {
		return r
	}
	panic("globalAddr: no storage for " + g.String())
}

func (i *interpreter) allocGlobals(pkg *ssa.Package, into map[*ssa.Global]*value) {
	for _, m := range pkg.Members {
		if g, ok := m.(*ssa.Global); ok {
			cell := zero(deref(g.Type()))
			into[g] = &cell
		}
	}
}

func (i *interpreter) ensureInit(pkg *ssa.Package) {
	if i.isModulePkg(pkg) {
		if i.pathInit[pkg] {
			return
		}
		i.pathInit[pkg] = true
		i.allocGlobals(pkg, i.globals)
		i.runInit(pkg)
		return
	}
	if i.sharedInit[pkg] {
		return
	}
	i.sharedInit[pkg] = true
	i.allocGlobals(pkg, i.shared)
	path := pkg.Pkg.Path()
	if initAllow[path] {
		i.runInit(pkg)
		return
	}
	if zeroOK[path] {
		i.patchGlobals(pkg)
		return
	}
	if i.curFrame != nil {
		i.abortAt(i.curFrame, abortUnsupported, "global of package without init policy: "+path)
	}
	i.abort(abortUnsupported, "global of package without init policy: "+path)
}

func (i *interpreter) runInit(pkg *ssa.Package) {
	fn := pkg.Func("init")
	if fn == nil {
		return
	}
	saveSteps, saveDepth := i.steps, i.depth
	i.steps = -50_000_000 // init is not charged to the path budget
	i.depth = 0
	i.callSSAInit(fn)
	i.steps, i.depth = saveSteps, saveDepth
}

// accessCount is reset per path

func (i *interpreter) callSSAInit(fn *ssa.Function) {
	i.inInit++
	defer func() { i.inInit-- }()
	i.directInit = fn
	i.callSSA(nil, 0, fn, nil, nil)
}

// ---- path driver ----

func (i *interpreter) runPath(entry *ssa.Function, prefix []int) (res *PathResult) {
	i.resetPath(prefix)
	i.solver.Push()
	if i.xsolver != nil {
		i.xsolver.Push()
	}
	res = &PathResult{Prefix: prefix, Status: "ok"}
	defer func() {
		if p := recover(); p != nil {
			switch p := p.(type) {
			case *abortSignal:
				switch p.kind {
				case abortPruned:
					res.Status = "pruned"
				case abortUnsupported:
					res.Status = "unsupported"
				case abortBudget:
					res.Status = "budget"
				case abortInternal:
					res.Status = "internal"
				case abortStop:
					res.Status = "stopped"
				}
				res.Msg = p.msg
			case targetPanic:
				res.Status = "panic"
				res.Msg = "panic: " + i.panicString(p.v)
				i.onEscapedPanic(res)
			case runtimeErr:
				res.Status = "panic"
				res.Msg = "panic: " + p.Error()
				i.onEscapedPanic(res)
			default:
				res.Status = "internal"
				res.Msg = fmt.Sprint(p)
			}
		}
		res.Decisions = append([]int(nil), i.decisions...)
		res.Findings = i.findings
		res.Unknowns = i.unknowns
		res.Reached = i.reached
		res.Asserts, res.Syntactic, res.Solver = i.asserts, i.syntactic, i.solved
		res.Steps = i.steps
		res.Forks = i.forks
		res.StoredLabels, res.UnlockedLoads, res.Accesses = i.storedLabels, i.unlockedLoads, i.accessCount
		if debugDecisions && fmt.Sprint(res.Decisions) == os.Getenv("VERIF_DEBUG_DECISIONS") || os.Getenv("VERIF_DEBUG_DECISIONS") == "all" {
			fmt.Println("==== decisions of path", res.Decisions, res.Status, res.Msg)
			for _, l := range i.whyLog {
				fmt.Println("   ", l)
			}
		}
		res.Trace = i.trace
		if res.Status == "ok" || res.Status == "panic" {
			res.Sample = i.samplePath()
		}
		i.solver.Pop()
		if i.xsolver != nil {
			i.xsolver.Pop()
		}
	}()
	i.call(nil, 0, entry, nil)
	return res
}

func (i *interpreter) panicString(v value) string {
	if it, ok := v.(iface); ok {
		if s, ok := it.v.(string); ok {
			return s
		}
		// error values: try Error() method
		if it.t != nil {
			if m := i.prog.LookupMethod(it.t, nil, "Error"); m != nil {
				func() {
					defer func() { recover() }()
					r := i.call(nil, 0, m, []value{it.v})
					if s, ok := r.(string); ok {
						v = s
					}
				}()
				if s, ok := v.(string); ok {
					return s
				}
			}
		}
		return toString(it.v)
	}
	return toString(v)
}

func (i *interpreter) onEscapedPanic(res *PathResult) {
	r, m := i.fullModel(nil)
	if r == "sat" {
		i.recordFinding("panic", res.Msg, i.panicSite, m)
	} else if r == "unknown" {
		i.unknowns = append(i.unknowns, "panic path with unknown PC: "+res.Msg)
	}
}

func (i *interpreter) samplePath() string {
	var parts []string
	for k, c := range i.pc {
		if k >= 6 {
			parts = append(parts, fmt.Sprintf("… %d more", len(i.pc)-k))
			break
		}
		parts = append(parts, Expand(c, 160))
	}
	return fmt.Sprintf("decisions=%v pc=[%s]", trimInts(i.decisions, 24), strings.Join(parts, " ∧ "))
}

func trimInts(a []int, n int) []int {
	if len(a) <= n {
		return a
	}
	return a[:n]
}

// ---- harness exploration ----

type HarnessReport struct {
	Name            string
	Paths           int
	ByStatus        map[string]int
	Decisions       int
	Findings        []Finding
	Unknowns        []string
	Problems        []string // unsupported / budget / internal messages
	Reached         map[string]int
	Asserts         int
	Syntactic       int
	SolverUnsat     int
	Queries         int
	Sat, Unsat      int
	Unknown         int
	SolverErr       int
	SolverTime      time.Duration
	Wall            time.Duration
	Funcs           map[string]int // function -> SSA instruction count
	FuncCalls       map[string]int
	Samples         []string
	Steps           int
	Exhausted       bool // all paths explored (queue drained)
	MapRangesForked int
	MapRangesFixed  int
	FixedSites      map[string]int
	NonASCII        int
	FPQueries       int
	StoredLabels    map[string]bool
	UnlockedLoads   map[string]string
	GuardedAccesses int
	WhyCount        map[string]int
}

type Program struct {
	Prog  *ssa.Program
	Sizes types.Sizes
	Pkgs  map[string]*ssa.Package
}

const recycleTerms = 400_000

// Explore runs harness fn to exhaustion (or MaxPaths) with cfg.Workers workers.
func (p *Program) Explore(fn *ssa.Function, cfg Config) *HarnessReport {
	t0 := time.Now()
	rep := &HarnessReport{Name: fn.Name(), ByStatus: map[string]int{}, Reached: map[string]int{},
		Funcs: map[string]int{}, FuncCalls: map[string]int{}, StoredLabels: map[string]bool{}, UnlockedLoads: map[string]string{}, FixedSites: map[string]int{}, WhyCount: map[string]int{}}
	var mu sync.Mutex
	queue := [][]int{nil}
	inflight := 0
	cond := sync.NewCond(&mu)
	stop := false
	seenFinding := map[string]bool{}

	// flush adds a worker's solver / coverage statistics to the report (mu held)
	flush := func(i *interpreter) {
		s := i.solver
		rep.Queries += s.Queries
		rep.Sat += s.Sat
		rep.Unsat += s.Unsat
		rep.Unknown += s.Unknown
		rep.SolverErr += s.Errors
		rep.SolverTime += s.SolveTime
		if i.fsolver != nil {
			f := i.fsolver
			rep.Queries += f.Queries
			rep.Sat += f.Sat
			rep.Unsat += f.Unsat
			rep.Unknown += f.Unknown
			rep.SolverErr += f.Errors
			rep.SolverTime += f.SolveTime
			rep.FPQueries += f.Queries
		}
		if i.xsolver != nil {
			rep.Queries += i.xsolver.Queries
			rep.SolverTime += i.xsolver.SolveTime
			rep.SolverErr += i.xsolver.Errors
		}
		for f, n := range i.callLog {
			name := f.String()
			rep.FuncCalls[name] += n
			if _, ok := rep.Funcs[name]; !ok {
				cnt := 0
				for _, b := range f.Blocks {
					cnt += len(b.Instrs)
				}
				rep.Funcs[name] = cnt
			}
		}
		rep.MapRangesForked += i.mapRangesForked
		rep.MapRangesFixed += i.mapRangesFixed
		for k, v := range i.fixedRangeSites {
			rep.FixedSites[k] += v
		}
		rep.NonASCII += i.nonASCIITotal
		for k, v := range i.whyCount {
			rep.WhyCount[k] += v
		}
	}
	worker := func(id int) {
		i, err := p.newInterp(&cfg, fn.Name(), id)
		if err != nil {
			mu.Lock()
			rep.Problems = append(rep.Problems, "solver start: "+err.Error())
			stop = true
			cond.Broadcast()
			mu.Unlock()
			return
		}
		defer func() { i.close() }()
		for {
			mu.Lock()
			for len(queue) == 0 && inflight > 0 && !stop {
				cond.Wait()
			}
			if stop || (len(queue) == 0 && inflight == 0) {
				cond.Broadcast()
				mu.Unlock()
				break
			}
			// depth-first: take the last
			prefix := queue[len(queue)-1]
			queue = queue[:len(queue)-1]
			inflight++
			mu.Unlock()

			res := i.runPath(fn, prefix)
			// hash-consed terms are never freed: recycle the worker (term store and solver
			// processes) once its store is large; paths are replayed from their decision
			// prefixes, so nothing but caches is lost
			if len(i.st.tab) > recycleTerms {
				ni, err := p.newInterp(&cfg, fn.Name(), id)
				if err == nil {
					mu.Lock()
					flush(i)
					mu.Unlock()
					i.close()
					i = ni
				}
			}

			mu.Lock()
			inflight--
			rep.Paths++
			rep.ByStatus[res.Status]++
			rep.Decisions += len(res.Decisions)
			rep.Asserts += res.Asserts
			rep.Syntactic += res.Syntactic
			rep.SolverUnsat += res.Solver
			rep.Steps += res.Steps
			for k, v := range res.Reached {
				rep.Reached[k] += v
			}
			for k := range res.StoredLabels {
				rep.StoredLabels[k] = true
			}
			for k, v := range res.UnlockedLoads {
				if _, ok := rep.UnlockedLoads[k]; !ok {
					rep.UnlockedLoads[k] = v
				}
			}
			rep.GuardedAccesses += res.Accesses
			for _, f := range res.Findings {
				key := f.Kind + "|" + f.Msg + "|" + f.Site
				if !seenFinding[key] {
					seenFinding[key] = true
					rep.Findings = append(rep.Findings, f)
				}
			}
			for _, u := range res.Unknowns {
				if !seenFinding["U|"+u] && len(rep.Unknowns) < 20 {
					seenFinding["U|"+u] = true
					rep.Unknowns = append(rep.Unknowns, u)
				}
			}
			switch res.Status {
			case "unsupported", "budget", "internal":
				pm := res.Status + ": " + res.Msg
				if !seenFinding["P|"+pm] && len(rep.Problems) < 20 {
					seenFinding["P|"+pm] = true
					rep.Problems = append(rep.Problems, pm+fmt.Sprintf(" (first at prefix %v)", trimInts(res.Decisions, 40)))
				}
			}
			if res.Sample != "" && len(rep.Samples) < 3 {
				rep.Samples = append(rep.Samples, res.Status+": "+res.Sample)
			}
			queue = append(queue, res.Forks...)
			if rep.Paths >= cfg.MaxPaths {
				stop = true
				rep.Problems = append(rep.Problems, fmt.Sprintf("budget: path budget %d exhausted", cfg.MaxPaths))
			}
			if cfg.StopOnFirst && len(rep.Findings) > 0 {
				stop = true
			}
			cond.Broadcast()
			mu.Unlock()
		}
		mu.Lock()
		flush(i)
		mu.Unlock()
	}
	var wg sync.WaitGroup
	n := cfg.Workers
	if n < 1 {
		n = 1
	}
	for w := 0; w < n; w++ {
		wg.Add(1)
		go func(id int) { defer wg.Done(); worker(id) }(w)
	}
	wg.Wait()
	rep.Exhausted = !stop && len(queue) == 0
	if stop && cfg.StopOnFirst && len(rep.Findings) > 0 && rep.Paths < cfg.MaxPaths {
		rep.Exhausted = false
	}
	rep.Wall = time.Since(t0)
	sort.Slice(rep.Findings, func(a, b int) bool { return rep.Findings[a].Msg < rep.Findings[b].Msg })
	return rep
}

// RunConcrete executes harness fn once with the given vector (translator validation / debugging).
func (p *Program) RunConcrete(fn *ssa.Function, cfg Config, vec []ReplayVal) *PathResult {
	cfg.Concrete = vec
	if cfg.Concrete == nil {
		cfg.Concrete = []ReplayVal{}
	}
	i, err := p.newInterp(&cfg, fn.Name(), 0)
	if err != nil {
		return &PathResult{Status: "internal", Msg: err.Error()}
	}
	defer i.close()
	return i.runPath(fn, nil)
}

// RunPrefix executes one symbolic path following the given decisions (debugging).
func (p *Program) RunPrefix(fn *ssa.Function, cfg Config, prefix []int) *PathResult {
	i, err := p.newInterp(&cfg, fn.Name(), 0)
	if err != nil {
		return &PathResult{Status: "internal", Msg: err.Error()}
	}
	defer i.close()
	return i.runPath(fn, prefix)
}

func (p *Program) newInterp(cfg *Config, harness string, id int) (*interpreter, error) {
	st := NewTermStore()
	s, err := NewSolver(cfg.Solver, st, cfg.TimeoutMs)
	if err != nil {
		return nil, err
	}
	if cfg.LogSMT != "" {
		f, _ := os.Create(fmt.Sprintf("%s.%s.%d.smt2", cfg.LogSMT, harness, id))
		s.Log = f
	}
	i := &interpreter{prog: p.Prog, cfg: cfg, st: st, solver: s, sizes: p.Sizes, harnessName: harness,
		shared: map[*ssa.Global]*value{}, sharedInit: map[*ssa.Package]bool{},
		callLog: map[*ssa.Function]int{}, allocSites: map[string]int{}, fixedRangeSites: map[string]int{}, regexpsSeen: map[string]int{}, whyCount: map[string]int{}}
	if cfg.CrossCheck != "" {
		x, err := NewSolver(cfg.CrossCheck, st, cfg.TimeoutMs)
		if err != nil {
			return nil, err
		}
		i.xsolver = x
	}
	if rt := p.Prog.ImportedPackage("runtime"); rt != nil {
		if t := rt.Type("errorString"); t != nil {
			i.runtimeErrorString = t.Object().Type()
		}
	}
	return i, nil
}

func (i *interpreter) close() {
	i.solver.Close()
	if i.fsolver != nil {
		i.fsolver.Close()
	}
	if i.xsolver != nil {
		i.xsolver.Close()
	}
}
