package sx

// Hash-consed SMT terms with constant folding.  One TermStore per executor
// (worker); stores are not shared between goroutines.

import (
	"fmt"
	"math"
	"math/bits"
	"strconv"
	"strings"
)

type Sort uint8

const (
	SBool Sort = iota
	SBV8
	SBV16
	SBV32
	SBV64
	SF32
	SF64
)

func (s Sort) Width() uint {
	switch s {
	case SBV8:
		return 8
	case SBV16:
		return 16
	case SBV32, SF32:
		return 32
	case SBV64, SF64:
		return 64
	}
	return 1
}

func (s Sort) IsBV() bool { return s >= SBV8 && s <= SBV64 }
func (s Sort) IsFP() bool { return s == SF32 || s == SF64 }

func bvSort(w uint) Sort {
	switch w {
	case 8:
		return SBV8
	case 16:
		return SBV16
	case 32:
		return SBV32
	case 64:
		return SBV64
	}
	panic(fmt.Sprintf("bvSort(%d)", w))
}

func (s Sort) SMT() string {
	switch s {
	case SBool:
		return "Bool"
	case SBV8:
		return "(_ BitVec 8)"
	case SBV16:
		return "(_ BitVec 16)"
	case SBV32:
		return "(_ BitVec 32)"
	case SBV64:
		return "(_ BitVec 64)"
	case SF32:
		return "(_ FloatingPoint 8 24)"
	case SF64:
		return "(_ FloatingPoint 11 53)"
	}
	panic("sort")
}

type Op uint8

const (
	OpConst Op = iota // BV / Bool / FP constant
	OpVar
	// bool
	OpNot
	OpAnd
	OpOr
	OpIte
	OpEq // polymorphic structural equality (BV, Bool); for FP use OpFEq
	// bv arith
	OpAdd
	OpSub
	OpMul
	OpUDiv
	OpURem
	OpSDiv
	OpSRem
	OpBAnd
	OpBOr
	OpBXor
	OpBNot
	OpNeg
	OpShl
	OpLShr
	OpAShr
	OpULt
	OpULe
	OpSLt
	OpSLe
	OpZExt  // to sort width
	OpSExt  // to sort width
	OpTrunc // extract low bits
	// fp
	OpFAdd
	OpFSub
	OpFMul
	OpFDiv
	OpFNeg
	OpFAbs
	OpFSqrt
	OpFLt
	OpFLe
	OpFEq
	OpFIsNaN
	OpFIsInf
	OpFFromS  // signed bv -> fp
	OpFFromU  // unsigned bv -> fp
	OpFToS    // fp -> signed bv (RTZ)
	OpFToU    // fp -> unsigned bv (RTZ)
	OpFToF    // fp -> fp (other precision)
	OpFOfBits // bv -> fp reinterpret
	OpUF      // uninterpreted function application, name in Name
)

var opSMT = map[Op]string{
	OpNot: "not", OpAnd: "and", OpOr: "or", OpIte: "ite", OpEq: "=",
	OpAdd: "bvadd", OpSub: "bvsub", OpMul: "bvmul", OpUDiv: "bvudiv", OpURem: "bvurem",
	OpSDiv: "bvsdiv", OpSRem: "bvsrem", OpBAnd: "bvand", OpBOr: "bvor", OpBXor: "bvxor",
	OpBNot: "bvnot", OpNeg: "bvneg", OpShl: "bvshl", OpLShr: "bvlshr", OpAShr: "bvashr",
	OpULt: "bvult", OpULe: "bvule", OpSLt: "bvslt", OpSLe: "bvsle",
	OpFAdd: "fp.add RNE", OpFSub: "fp.sub RNE", OpFMul: "fp.mul RNE", OpFDiv: "fp.div RNE",
	OpFNeg: "fp.neg", OpFAbs: "fp.abs", OpFSqrt: "fp.sqrt RNE", OpFLt: "fp.lt", OpFLe: "fp.leq",
	OpFEq: "fp.eq", OpFIsNaN: "fp.isNaN", OpFIsInf: "fp.isInfinite",
}

type Term struct {
	ID       int
	Op       Op
	Sort     Sort
	Args     []*Term
	C        uint64 // constant payload: BV value (masked), bool (0/1), FP bits
	Name     string // var / UF name
	HasF     bool   // mentions floating point somewhere below
	HardF    bool   // mentions a floating-point division or square root of non-constant operands
	vars     []int  // variable ids below (lazily computed)
	varsDone bool
}

func (t *Term) IsConst() bool { return t.Op == OpConst }

type TermStore struct {
	tab    map[string]*Term
	nextID int
	Vars   []*Term // in creation order
	UFs    map[string]ufSig
	True   *Term
	False  *Term
}

type ufSig struct {
	args []Sort
	res  Sort
}

func NewTermStore() *TermStore {
	s := &TermStore{tab: map[string]*Term{}, UFs: map[string]ufSig{}}
	s.True = s.mk(OpConst, SBool, 1, "")
	s.False = s.mk(OpConst, SBool, 0, "")
	return s
}

func (s *TermStore) mk(op Op, sort Sort, c uint64, name string, args ...*Term) *Term {
	var sb strings.Builder
	sb.WriteByte(byte(op))
	sb.WriteByte(byte(sort))
	sb.WriteString(strconv.FormatUint(c, 16))
	sb.WriteByte('|')
	sb.WriteString(name)
	for _, a := range args {
		sb.WriteByte(',')
		sb.WriteString(strconv.Itoa(a.ID))
	}
	k := sb.String()
	if t, ok := s.tab[k]; ok {
		return t
	}
	t := &Term{ID: s.nextID, Op: op, Sort: sort, C: c, Name: name}
	if len(args) > 0 {
		t.Args = append([]*Term(nil), args...)
	}
	t.HasF = sort.IsFP()
	t.HardF = op == OpFDiv || op == OpFSqrt
	for _, a := range args {
		if a.HasF {
			t.HasF = true
		}
		if a.HardF {
			t.HardF = true
		}
	}
	s.nextID++
	s.tab[k] = t
	return t
}

func mask(w uint) uint64 {
	if w >= 64 {
		return ^uint64(0)
	}
	return (uint64(1) << w) - 1
}

func sext64(v uint64, w uint) int64 {
	if w >= 64 {
		return int64(v)
	}
	sh := 64 - w
	return int64(v<<sh) >> sh
}

func (s *TermStore) Bool(b bool) *Term {
	if b {
		return s.True
	}
	return s.False
}

func (s *TermStore) BV(w uint, v uint64) *Term {
	return s.mk(OpConst, bvSort(w), v&mask(w), "")
}

func (s *TermStore) F64(f float64) *Term { return s.mk(OpConst, SF64, math.Float64bits(f), "") }
func (s *TermStore) F32(f float32) *Term {
	return s.mk(OpConst, SF32, uint64(math.Float32bits(f)), "")
}

func (s *TermStore) Var(name string, sort Sort) *Term {
	k := fmt.Sprintf("v%d_%s", len(s.Vars), sanitize(name))
	t := s.mk(OpVar, sort, 0, k)
	s.Vars = append(s.Vars, t)
	return t
}

func sanitize(n string) string {
	var sb strings.Builder
	for _, r := range n {
		if r >= 'a' && r <= 'z' || r >= 'A' && r <= 'Z' || r >= '0' && r <= '9' || r == '_' {
			sb.WriteRune(r)
		} else {
			sb.WriteByte('_')
		}
	}
	return sb.String()
}

// ---- boolean ----

func (s *TermStore) Not(a *Term) *Term {
	if a.IsConst() {
		return s.Bool(a.C == 0)
	}
	if a.Op == OpNot {
		return a.Args[0]
	}
	return s.mk(OpNot, SBool, 0, "", a)
}

func (s *TermStore) And(a, b *Term) *Term {
	if a.IsConst() {
		if a.C == 0 {
			return s.False
		}
		return b
	}
	if b.IsConst() {
		if b.C == 0 {
			return s.False
		}
		return a
	}
	if a == b {
		return a
	}
	if (a.Op == OpNot && a.Args[0] == b) || (b.Op == OpNot && b.Args[0] == a) {
		return s.False
	}
	return s.mk(OpAnd, SBool, 0, "", a, b)
}

func (s *TermStore) Or(a, b *Term) *Term {
	if a.IsConst() {
		if a.C == 1 {
			return s.True
		}
		return b
	}
	if b.IsConst() {
		if b.C == 1 {
			return s.True
		}
		return a
	}
	if a == b {
		return a
	}
	if (a.Op == OpNot && a.Args[0] == b) || (b.Op == OpNot && b.Args[0] == a) {
		return s.True
	}
	return s.mk(OpOr, SBool, 0, "", a, b)
}

func (s *TermStore) Implies(a, b *Term) *Term { return s.Or(s.Not(a), b) }

func (s *TermStore) Ite(c, a, b *Term) *Term {
	if c.IsConst() {
		if c.C == 1 {
			return a
		}
		return b
	}
	if a == b {
		return a
	}
	if a.Sort == SBool {
		if a.IsConst() && b.IsConst() {
			if a.C == 1 {
				return c
			}
			return s.Not(c)
		}
	}
	return s.mk(OpIte, a.Sort, 0, "", c, a, b)
}

// Eq is structural equality for Bool and BV sorts. For FP sorts it is
// bit-identity-modulo-NaN (SMT "="), which is NOT Go's ==; use FEq for that.
func (s *TermStore) Eq(a, b *Term) *Term {
	if a.Sort != b.Sort {
		panic(fmt.Sprintf("Eq sort mismatch %v %v", a.Sort, b.Sort))
	}
	if a == b {
		return s.True
	}
	if a.IsConst() && b.IsConst() && !a.Sort.IsFP() {
		return s.Bool(a.C == b.C)
	}
	if a.Sort == SBool {
		if a.IsConst() {
			if a.C == 1 {
				return b
			}
			return s.Not(b)
		}
		if b.IsConst() {
			if b.C == 1 {
				return a
			}
			return s.Not(a)
		}
	}
	if a.ID > b.ID {
		a, b = b, a
	}
	return s.mk(OpEq, SBool, 0, "", a, b)
}

// ---- bit-vectors ----

func (s *TermStore) bin(op Op, a, b *Term) *Term {
	if a.Sort != b.Sort {
		panic(fmt.Sprintf("bv op %d sort mismatch %v %v", op, a.Sort, b.Sort))
	}
	w := a.Sort.Width()
	if a.IsConst() && b.IsConst() {
		x, y := a.C, b.C
		sx, sy := sext64(x, w), sext64(y, w)
		switch op {
		case OpAdd:
			return s.BV(w, x+y)
		case OpSub:
			return s.BV(w, x-y)
		case OpMul:
			return s.BV(w, x*y)
		case OpUDiv:
			if y == 0 {
				return s.BV(w, mask(w))
			}
			return s.BV(w, x/y)
		case OpURem:
			if y == 0 {
				return s.BV(w, x)
			}
			return s.BV(w, x%y)
		case OpSDiv:
			if y == 0 {
				if sx < 0 {
					return s.BV(w, 1)
				}
				return s.BV(w, mask(w))
			}
			if sy == -1 {
				return s.BV(w, uint64(-sx))
			}
			return s.BV(w, uint64(sx/sy))
		case OpSRem:
			if y == 0 {
				return s.BV(w, x)
			}
			if sy == -1 {
				return s.BV(w, 0)
			}
			return s.BV(w, uint64(sx%sy))
		case OpBAnd:
			return s.BV(w, x&y)
		case OpBOr:
			return s.BV(w, x|y)
		case OpBXor:
			return s.BV(w, x^y)
		case OpShl:
			if y >= uint64(w) {
				return s.BV(w, 0)
			}
			return s.BV(w, x<<y)
		case OpLShr:
			if y >= uint64(w) {
				return s.BV(w, 0)
			}
			return s.BV(w, x>>y)
		case OpAShr:
			if y >= uint64(w) {
				y = uint64(w) - 1
			}
			return s.BV(w, uint64(sx>>y))
		case OpULt:
			return s.Bool(x < y)
		case OpULe:
			return s.Bool(x <= y)
		case OpSLt:
			return s.Bool(sx < sy)
		case OpSLe:
			return s.Bool(sx <= sy)
		}
	}
	// light identities
	switch op {
	case OpAdd:
		if a.IsConst() && a.C == 0 {
			return b
		}
		if b.IsConst() && b.C == 0 {
			return a
		}
	case OpSub:
		if b.IsConst() && b.C == 0 {
			return a
		}
		if a == b {
			return s.BV(w, 0)
		}
	case OpMul:
		if a.IsConst() && a.C == 1 {
			return b
		}
		if b.IsConst() && b.C == 1 {
			return a
		}
		if (a.IsConst() && a.C == 0) || (b.IsConst() && b.C == 0) {
			return s.BV(w, 0)
		}
	case OpBAnd:
		if a == b {
			return a
		}
		if b.IsConst() && b.C == mask(w) {
			return a
		}
		if a.IsConst() && a.C == mask(w) {
			return b
		}
		if (a.IsConst() && a.C == 0) || (b.IsConst() && b.C == 0) {
			return s.BV(w, 0)
		}
	case OpBOr:
		if a == b {
			return a
		}
		if b.IsConst() && b.C == 0 {
			return a
		}
		if a.IsConst() && a.C == 0 {
			return b
		}
	case OpBXor:
		if a == b {
			return s.BV(w, 0)
		}
		if b.IsConst() && b.C == 0 {
			return a
		}
		if a.IsConst() && a.C == 0 {
			return b
		}
	case OpShl, OpLShr, OpAShr:
		if b.IsConst() && b.C == 0 {
			return a
		}
	case OpULt:
		if a == b {
			return s.False
		}
		if b.IsConst() && b.C == 0 {
			return s.False
		}
	case OpULe:
		if a == b {
			return s.True
		}
		if a.IsConst() && a.C == 0 {
			return s.True
		}
	case OpSLt:
		if a == b {
			return s.False
		}
	case OpSLe:
		if a == b {
			return s.True
		}
	}
	rs := a.Sort
	switch op {
	case OpULt, OpULe, OpSLt, OpSLe:
		rs = SBool
	}
	// zero-extension aware range pruning: zext(x:8) < const etc.
	if rs == SBool {
		if r, ok := s.rangeCmp(op, a, b); ok {
			return r
		}
	}
	return s.mk(op, rs, 0, "", a, b)
}

// uRange returns an unsigned interval [lo,hi] known syntactically for t.
func uRange(t *Term) (uint64, uint64) {
	w := t.Sort.Width()
	if t.IsConst() {
		return t.C, t.C
	}
	if t.Op == OpZExt {
		return 0, mask(t.Args[0].Sort.Width())
	}
	if t.Op == OpIte {
		l1, h1 := uRange(t.Args[1])
		l2, h2 := uRange(t.Args[2])
		if l2 < l1 {
			l1 = l2
		}
		if h2 > h1 {
			h1 = h2
		}
		return l1, h1
	}
	return 0, mask(w)
}

func (s *TermStore) rangeCmp(op Op, a, b *Term) (*Term, bool) {
	w := a.Sort.Width()
	la, ha := uRange(a)
	lb, hb := uRange(b)
	nonneg := func(h uint64) bool { return w == 64 && h <= math.MaxInt64 || w < 64 && h < uint64(1)<<(w-1) }
	switch op {
	case OpSLt, OpSLe:
		if !nonneg(ha) || !nonneg(hb) {
			return nil, false
		}
	}
	switch op {
	case OpULt, OpSLt:
		if ha < lb {
			return s.True, true
		}
		if la >= hb {
			return s.False, true
		}
	case OpULe, OpSLe:
		if ha <= lb {
			return s.True, true
		}
		if la > hb {
			return s.False, true
		}
	}
	return nil, false
}

func (s *TermStore) Add(a, b *Term) *Term  { return s.bin(OpAdd, a, b) }
func (s *TermStore) Sub(a, b *Term) *Term  { return s.bin(OpSub, a, b) }
func (s *TermStore) Mul(a, b *Term) *Term  { return s.bin(OpMul, a, b) }
func (s *TermStore) UDiv(a, b *Term) *Term { return s.bin(OpUDiv, a, b) }
func (s *TermStore) URem(a, b *Term) *Term { return s.bin(OpURem, a, b) }
func (s *TermStore) SDiv(a, b *Term) *Term { return s.bin(OpSDiv, a, b) }
func (s *TermStore) SRem(a, b *Term) *Term { return s.bin(OpSRem, a, b) }
func (s *TermStore) BAnd(a, b *Term) *Term { return s.bin(OpBAnd, a, b) }
func (s *TermStore) BOr(a, b *Term) *Term  { return s.bin(OpBOr, a, b) }
func (s *TermStore) BXor(a, b *Term) *Term { return s.bin(OpBXor, a, b) }
func (s *TermStore) Shl(a, b *Term) *Term  { return s.bin(OpShl, a, b) }
func (s *TermStore) LShr(a, b *Term) *Term { return s.bin(OpLShr, a, b) }
func (s *TermStore) AShr(a, b *Term) *Term { return s.bin(OpAShr, a, b) }
func (s *TermStore) ULt(a, b *Term) *Term  { return s.bin(OpULt, a, b) }
func (s *TermStore) ULe(a, b *Term) *Term  { return s.bin(OpULe, a, b) }
func (s *TermStore) SLt(a, b *Term) *Term  { return s.bin(OpSLt, a, b) }
func (s *TermStore) SLe(a, b *Term) *Term  { return s.bin(OpSLe, a, b) }

func (s *TermStore) BNot(a *Term) *Term {
	w := a.Sort.Width()
	if a.IsConst() {
		return s.BV(w, ^a.C)
	}
	return s.mk(OpBNot, a.Sort, 0, "", a)
}

func (s *TermStore) Neg(a *Term) *Term {
	w := a.Sort.Width()
	if a.IsConst() {
		return s.BV(w, -a.C)
	}
	return s.mk(OpNeg, a.Sort, 0, "", a)
}

// Resize converts BV a to width w, sign- or zero-extending, or truncating.
func (s *TermStore) Resize(a *Term, w uint, signed bool) *Term {
	aw := a.Sort.Width()
	if aw == w {
		return a
	}
	if a.IsConst() {
		if w < aw {
			return s.BV(w, a.C)
		}
		if signed {
			return s.BV(w, uint64(sext64(a.C, aw)))
		}
		return s.BV(w, a.C)
	}
	if w < aw {
		// trunc(zext(x)) where x narrower or equal
		if (a.Op == OpZExt || a.Op == OpSExt) && a.Args[0].Sort.Width() == w {
			return a.Args[0]
		}
		if (a.Op == OpZExt || a.Op == OpSExt) && a.Args[0].Sort.Width() < w {
			return s.Resize(a.Args[0], w, a.Op == OpSExt)
		}
		return s.mk(OpTrunc, bvSort(w), 0, "", a)
	}
	if signed {
		return s.mk(OpSExt, bvSort(w), 0, "", a)
	}
	return s.mk(OpZExt, bvSort(w), 0, "", a)
}

// ---- floating point ----

func fconst(t *Term) float64 {
	if t.Sort == SF32 {
		return float64(math.Float32frombits(uint32(t.C)))
	}
	return math.Float64frombits(t.C)
}

func (s *TermStore) fmk(sort Sort, f float64) *Term {
	if sort == SF32 {
		return s.F32(float32(f))
	}
	return s.F64(f)
}

func (s *TermStore) fbin(op Op, a, b *Term) *Term {
	if a.Sort != b.Sort {
		panic("fp sort mismatch")
	}
	if a.IsConst() && b.IsConst() {
		if a.Sort == SF64 {
			x, y := fconst(a), fconst(b)
			switch op {
			case OpFAdd:
				return s.F64(x + y)
			case OpFSub:
				return s.F64(x - y)
			case OpFMul:
				return s.F64(x * y)
			case OpFDiv:
				return s.F64(x / y)
			case OpFLt:
				return s.Bool(x < y)
			case OpFLe:
				return s.Bool(x <= y)
			case OpFEq:
				return s.Bool(x == y)
			}
		} else {
			x, y := math.Float32frombits(uint32(a.C)), math.Float32frombits(uint32(b.C))
			switch op {
			case OpFAdd:
				return s.F32(x + y)
			case OpFSub:
				return s.F32(x - y)
			case OpFMul:
				return s.F32(x * y)
			case OpFDiv:
				return s.F32(x / y)
			case OpFLt:
				return s.Bool(x < y)
			case OpFLe:
				return s.Bool(x <= y)
			case OpFEq:
				return s.Bool(x == y)
			}
		}
	}
	rs := a.Sort
	switch op {
	case OpFLt, OpFLe, OpFEq:
		rs = SBool
	}
	switch op {
	case OpFAdd, OpFMul, OpFEq:
		// IEEE addition / multiplication / equality are commutative: canonical operand order
		if a.ID > b.ID {
			a, b = b, a
		}
	}
	if op == OpFEq && a == b {
		return s.Not(s.FIsNaN(a))
	}
	return s.mk(op, rs, 0, "", a, b)
}

func (s *TermStore) FAdd(a, b *Term) *Term { return s.fbin(OpFAdd, a, b) }
func (s *TermStore) FSub(a, b *Term) *Term { return s.fbin(OpFSub, a, b) }
func (s *TermStore) FMul(a, b *Term) *Term { return s.fbin(OpFMul, a, b) }
func (s *TermStore) FDiv(a, b *Term) *Term { return s.fbin(OpFDiv, a, b) }
func (s *TermStore) FLt(a, b *Term) *Term  { return s.fbin(OpFLt, a, b) }
func (s *TermStore) FLe(a, b *Term) *Term  { return s.fbin(OpFLe, a, b) }
func (s *TermStore) FEq(a, b *Term) *Term  { return s.fbin(OpFEq, a, b) }

func (s *TermStore) FNeg(a *Term) *Term {
	if a.IsConst() {
		return s.fmk(a.Sort, -fconst(a))
	}
	return s.mk(OpFNeg, a.Sort, 0, "", a)
}

func (s *TermStore) FAbs(a *Term) *Term {
	if a.IsConst() {
		return s.fmk(a.Sort, math.Abs(fconst(a)))
	}
	return s.mk(OpFAbs, a.Sort, 0, "", a)
}

func (s *TermStore) FSqrt(a *Term) *Term {
	if a.IsConst() {
		if a.Sort == SF32 {
			return s.F32(float32(math.Sqrt(fconst(a))))
		}
		return s.F64(math.Sqrt(fconst(a)))
	}
	return s.mk(OpFSqrt, a.Sort, 0, "", a)
}

func (s *TermStore) FIsNaN(a *Term) *Term {
	if a.IsConst() {
		return s.Bool(math.IsNaN(fconst(a)))
	}
	return s.mk(OpFIsNaN, SBool, 0, "", a)
}

func (s *TermStore) FIsInf(a *Term) *Term {
	if a.IsConst() {
		return s.Bool(math.IsInf(fconst(a), 0))
	}
	return s.mk(OpFIsInf, SBool, 0, "", a)
}

// FFromInt converts BV a to FP sort dst.
func (s *TermStore) FFromInt(a *Term, signed bool, dst Sort) *Term {
	if a.IsConst() {
		w := a.Sort.Width()
		if signed {
			v := sext64(a.C, w)
			if dst == SF32 {
				return s.F32(float32(v))
			}
			return s.F64(float64(v))
		}
		if dst == SF32 {
			return s.F32(float32(a.C))
		}
		return s.F64(float64(a.C))
	}
	if signed {
		return s.mk(OpFFromS, dst, 0, "", a)
	}
	return s.mk(OpFFromU, dst, 0, "", a)
}

// FToInt converts FP a to BV of width w (round toward zero).
func (s *TermStore) FToInt(a *Term, signed bool, w uint) *Term {
	if a.IsConst() {
		f := fconst(a)
		if signed {
			return s.BV(w, uint64(int64(f)))
		}
		return s.BV(w, uint64(f))
	}
	if signed {
		return s.mk(OpFToS, bvSort(w), 0, "", a)
	}
	return s.mk(OpFToU, bvSort(w), 0, "", a)
}

func (s *TermStore) FToF(a *Term, dst Sort) *Term {
	if a.Sort == dst {
		return a
	}
	if a.IsConst() {
		return s.fmk(dst, fconst(a))
	}
	return s.mk(OpFToF, dst, 0, "", a)
}

func (s *TermStore) FOfBits(a *Term) *Term {
	dst := SF64
	if a.Sort == SBV32 {
		dst = SF32
	}
	if a.IsConst() {
		if dst == SF32 {
			return s.F32(math.Float32frombits(uint32(a.C)))
		}
		return s.F64(math.Float64frombits(a.C))
	}
	return s.mk(OpFOfBits, dst, 0, "", a)
}

func (s *TermStore) UF(name string, res Sort, args ...*Term) *Term {
	if _, ok := s.UFs[name]; !ok {
		sig := ufSig{res: res}
		for _, a := range args {
			sig.args = append(sig.args, a.Sort)
		}
		s.UFs[name] = sig
	}
	return s.mk(OpUF, res, 0, name, args...)
}

// ---- printing ----

func constSMT(t *Term) string {
	switch t.Sort {
	case SBool:
		if t.C == 1 {
			return "true"
		}
		return "false"
	case SBV8:
		return fmt.Sprintf("#x%02x", t.C)
	case SBV16:
		return fmt.Sprintf("#x%04x", t.C)
	case SBV32:
		return fmt.Sprintf("#x%08x", t.C)
	case SBV64:
		return fmt.Sprintf("#x%016x", t.C)
	case SF64:
		b := t.C
		return fmt.Sprintf("(fp #b%d #b%011b #b%052b)", b>>63, (b>>52)&0x7ff, b&((1<<52)-1))
	case SF32:
		b := t.C
		return fmt.Sprintf("(fp #b%d #b%08b #b%023b)", b>>31, (b>>23)&0xff, b&((1<<23)-1))
	}
	panic("constSMT")
}

func ref(t *Term) string {
	if t.Op == OpConst {
		return constSMT(t)
	}
	if t.Op == OpVar {
		return t.Name
	}
	return "t" + strconv.Itoa(t.ID)
}

// body renders the defining expression of a non-leaf term in terms of refs.
func body(t *Term) string {
	var sb strings.Builder
	a := func(i int) string { return ref(t.Args[i]) }
	switch t.Op {
	case OpZExt:
		d := t.Sort.Width() - t.Args[0].Sort.Width()
		fmt.Fprintf(&sb, "((_ zero_extend %d) %s)", d, a(0))
	case OpSExt:
		d := t.Sort.Width() - t.Args[0].Sort.Width()
		fmt.Fprintf(&sb, "((_ sign_extend %d) %s)", d, a(0))
	case OpTrunc:
		fmt.Fprintf(&sb, "((_ extract %d 0) %s)", t.Sort.Width()-1, a(0))
	case OpFFromS:
		fmt.Fprintf(&sb, "((_ to_fp %s) RNE %s)", fpDims(t.Sort), a(0))
	case OpFFromU:
		fmt.Fprintf(&sb, "((_ to_fp_unsigned %s) RNE %s)", fpDims(t.Sort), a(0))
	case OpFToS:
		fmt.Fprintf(&sb, "((_ fp.to_sbv %d) RTZ %s)", t.Sort.Width(), a(0))
	case OpFToU:
		fmt.Fprintf(&sb, "((_ fp.to_ubv %d) RTZ %s)", t.Sort.Width(), a(0))
	case OpFToF:
		fmt.Fprintf(&sb, "((_ to_fp %s) RNE %s)", fpDims(t.Sort), a(0))
	case OpFOfBits:
		fmt.Fprintf(&sb, "((_ to_fp %s) %s)", fpDims(t.Sort), a(0))
	case OpUF:
		sb.WriteString("(" + t.Name)
		for i := range t.Args {
			sb.WriteString(" " + a(i))
		}
		sb.WriteString(")")
	default:
		sb.WriteString("(" + opSMT[t.Op])
		for i := range t.Args {
			sb.WriteString(" " + a(i))
		}
		sb.WriteString(")")
	}
	return sb.String()
}

func fpDims(s Sort) string {
	if s == SF32 {
		return "8 24"
	}
	return "11 53"
}

// Expand renders t as a closed s-expression (for samples in evidence; may be large).
func Expand(t *Term, limit int) string {
	var sb strings.Builder
	var rec func(t *Term)
	rec = func(t *Term) {
		if sb.Len() > limit {
			return
		}
		if t.Op == OpConst || t.Op == OpVar {
			sb.WriteString(ref(t))
			return
		}
		switch t.Op {
		case OpZExt, OpSExt, OpTrunc, OpFFromS, OpFFromU, OpFToS, OpFToU, OpFToF, OpFOfBits:
			b := body(t)
			// replace the trailing ref by expansion
			i := strings.LastIndex(b, " ")
			sb.WriteString(b[:i+1])
			rec(t.Args[0])
			sb.WriteString(")")
			return
		}
		name := opSMT[t.Op]
		if t.Op == OpUF {
			name = t.Name
		}
		sb.WriteString("(" + name)
		for _, a := range t.Args {
			sb.WriteString(" ")
			rec(a)
		}
		sb.WriteString(")")
	}
	rec(t)
	out := sb.String()
	if len(out) > limit {
		out = out[:limit] + "…"
	}
	return out
}

var _ = bits.Len

// Make rebuilds a node of the given operator through the folding constructors.
func (s *TermStore) Make(t *Term, a []*Term) *Term {
	switch t.Op {
	case OpNot:
		return s.Not(a[0])
	case OpAnd:
		return s.And(a[0], a[1])
	case OpOr:
		return s.Or(a[0], a[1])
	case OpIte:
		return s.Ite(a[0], a[1], a[2])
	case OpEq:
		return s.Eq(a[0], a[1])
	case OpAdd, OpSub, OpMul, OpUDiv, OpURem, OpSDiv, OpSRem, OpBAnd, OpBOr, OpBXor, OpShl, OpLShr, OpAShr, OpULt, OpULe, OpSLt, OpSLe:
		return s.bin(t.Op, a[0], a[1])
	case OpBNot:
		return s.BNot(a[0])
	case OpNeg:
		return s.Neg(a[0])
	case OpZExt:
		return s.Resize(a[0], t.Sort.Width(), false)
	case OpSExt:
		return s.Resize(a[0], t.Sort.Width(), true)
	case OpTrunc:
		return s.Resize(a[0], t.Sort.Width(), false)
	case OpFAdd, OpFSub, OpFMul, OpFDiv, OpFLt, OpFLe, OpFEq:
		return s.fbin(t.Op, a[0], a[1])
	case OpFNeg:
		return s.FNeg(a[0])
	case OpFAbs:
		return s.FAbs(a[0])
	case OpFSqrt:
		return s.FSqrt(a[0])
	case OpFIsNaN:
		return s.FIsNaN(a[0])
	case OpFIsInf:
		return s.FIsInf(a[0])
	case OpFFromS:
		return s.FFromInt(a[0], true, t.Sort)
	case OpFFromU:
		return s.FFromInt(a[0], false, t.Sort)
	case OpFToS:
		return s.FToInt(a[0], true, t.Sort.Width())
	case OpFToU:
		return s.FToInt(a[0], false, t.Sort.Width())
	case OpFToF:
		return s.FToF(a[0], t.Sort)
	case OpFOfBits:
		return s.FOfBits(a[0])
	case OpUF:
		return s.UF(t.Name, t.Sort, a...)
	}
	return t
}
