package sx

import "math"

// evalTerm evaluates t under a model (var id -> bits; absent vars are 0).
// Returns ok=false when t contains an uninterpreted function or an operator
// the evaluator does not cover. Used only to skip solver calls whose answer
// the current model already witnesses ("this side is feasible").
func evalTerm(t *Term, m map[int]uint64, memo map[int]uint64) (uint64, bool) {
	if t.Op == OpConst {
		return t.C, true
	}
	if v, ok := memo[t.ID]; ok {
		return v, true
	}
	var args [3]uint64
	if t.Op != OpVar {
		for k, a := range t.Args {
			v, ok := evalTerm(a, m, memo)
			if !ok {
				return 0, false
			}
			if k < 3 {
				args[k] = v
			}
		}
	}
	b2u := func(b bool) uint64 {
		if b {
			return 1
		}
		return 0
	}
	var r uint64
	w := t.Sort.Width()
	var aw uint
	if len(t.Args) > 0 {
		aw = t.Args[0].Sort.Width()
	}
	x, y := args[0], args[1]
	fx := func(k int) float64 {
		if t.Args[k].Sort == SF32 {
			return float64(math.Float32frombits(uint32(args[k])))
		}
		return math.Float64frombits(args[k])
	}
	fres := func(f float64) uint64 {
		if t.Sort == SF32 {
			return uint64(math.Float32bits(float32(f)))
		}
		return math.Float64bits(f)
	}
	switch t.Op {
	case OpVar:
		r = m[t.ID] & mask(w)
		if t.Sort == SBool {
			r = m[t.ID] & 1
		}
	case OpNot:
		r = x ^ 1
	case OpAnd:
		r = x & y
	case OpOr:
		r = x | y
	case OpIte:
		if x == 1 {
			r = y
		} else {
			r = args[2]
		}
	case OpEq:
		if t.Args[0].Sort.IsFP() {
			// SMT "=": identical, all NaNs equal
			a, b := fx(0), fx(1)
			r = b2u(x == y || (a != a && b != b))
		} else {
			r = b2u(x == y)
		}
	case OpAdd:
		r = (x + y) & mask(w)
	case OpSub:
		r = (x - y) & mask(w)
	case OpMul:
		r = (x * y) & mask(w)
	case OpUDiv:
		if y == 0 {
			r = mask(w)
		} else {
			r = x / y
		}
	case OpURem:
		if y == 0 {
			r = x
		} else {
			r = x % y
		}
	case OpSDiv:
		sx, sy := sext64(x, aw), sext64(y, aw)
		switch {
		case y == 0 && sx < 0:
			r = 1
		case y == 0:
			r = mask(w)
		case sy == -1:
			r = uint64(-sx) & mask(w)
		default:
			r = uint64(sx/sy) & mask(w)
		}
	case OpSRem:
		sx, sy := sext64(x, aw), sext64(y, aw)
		switch {
		case y == 0:
			r = x
		case sy == -1:
			r = 0
		default:
			r = uint64(sx%sy) & mask(w)
		}
	case OpBAnd:
		r = x & y
	case OpBOr:
		r = x | y
	case OpBXor:
		r = x ^ y
	case OpBNot:
		r = ^x & mask(w)
	case OpNeg:
		r = (-x) & mask(w)
	case OpShl:
		if y >= uint64(w) {
			r = 0
		} else {
			r = (x << y) & mask(w)
		}
	case OpLShr:
		if y >= uint64(w) {
			r = 0
		} else {
			r = x >> y
		}
	case OpAShr:
		if y >= uint64(w) {
			y = uint64(w) - 1
		}
		r = uint64(sext64(x, aw)>>y) & mask(w)
	case OpULt:
		r = b2u(x < y)
	case OpULe:
		r = b2u(x <= y)
	case OpSLt:
		r = b2u(sext64(x, aw) < sext64(y, aw))
	case OpSLe:
		r = b2u(sext64(x, aw) <= sext64(y, aw))
	case OpZExt:
		r = x
	case OpSExt:
		r = uint64(sext64(x, aw)) & mask(w)
	case OpTrunc:
		r = x & mask(w)
	case OpFAdd:
		if t.Sort == SF32 {
			r = uint64(math.Float32bits(math.Float32frombits(uint32(x)) + math.Float32frombits(uint32(y))))
		} else {
			r = math.Float64bits(fx(0) + fx(1))
		}
	case OpFSub:
		if t.Sort == SF32 {
			r = uint64(math.Float32bits(math.Float32frombits(uint32(x)) - math.Float32frombits(uint32(y))))
		} else {
			r = math.Float64bits(fx(0) - fx(1))
		}
	case OpFMul:
		if t.Sort == SF32 {
			r = uint64(math.Float32bits(math.Float32frombits(uint32(x)) * math.Float32frombits(uint32(y))))
		} else {
			r = math.Float64bits(fx(0) * fx(1))
		}
	case OpFDiv:
		if t.Sort == SF32 {
			r = uint64(math.Float32bits(math.Float32frombits(uint32(x)) / math.Float32frombits(uint32(y))))
		} else {
			r = math.Float64bits(fx(0) / fx(1))
		}
	case OpFNeg:
		r = fres(-fx(0))
	case OpFAbs:
		r = fres(math.Abs(fx(0)))
	case OpFSqrt:
		r = fres(math.Sqrt(fx(0)))
	case OpFLt:
		r = b2u(fx(0) < fx(1))
	case OpFLe:
		r = b2u(fx(0) <= fx(1))
	case OpFEq:
		r = b2u(fx(0) == fx(1))
	case OpFIsNaN:
		r = b2u(math.IsNaN(fx(0)))
	case OpFIsInf:
		r = b2u(math.IsInf(fx(0), 0))
	case OpFFromS:
		r = fres(float64(sext64(x, aw)))
		if t.Sort == SF32 {
			r = uint64(math.Float32bits(float32(sext64(x, aw))))
		}
	case OpFFromU:
		r = fres(float64(x))
		if t.Sort == SF32 {
			r = uint64(math.Float32bits(float32(x)))
		}
	case OpFToF:
		r = fres(fx(0))
	case OpFOfBits:
		r = x
	default:
		// OpFToS / OpFToU (unspecified out of range), OpUF
		return 0, false
	}
	memo[t.ID] = r
	return r, true
}
