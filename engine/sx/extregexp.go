package sx

import (
	"fmt"
	"go/types"
	"regexp"
)

// Regexp stub. The engine cannot execute RE2; it supports exactly the
// patterns of the shape  CLASS  or  CLASS+  where CLASS is a bracket
// expression or a single escape (\s \w \d) made of ASCII items. Semantics
// follow RE2 on Go strings: the input is decoded rune by rune (an invalid
// byte is U+FFFD of width 1); \s = [\t\n\f\r ], \w = [0-9A-Za-z_], \d = [0-9].
// Any other pattern aborts the path as unsupported.

type reClass struct {
	neg    bool
	ranges [][2]rune
	plus   bool
	src    string
}

func parseSimpleRegexp(p string) (*reClass, error) {
	c := &reClass{src: p}
	addEsc := func(e byte) error {
		switch e {
		case 's':
			c.ranges = append(c.ranges, [2]rune{'\t', '\n'}, [2]rune{'\f', '\r'}, [2]rune{' ', ' '})
		case 'w':
			c.ranges = append(c.ranges, [2]rune{'0', '9'}, [2]rune{'A', 'Z'}, [2]rune{'a', 'z'}, [2]rune{'_', '_'})
		case 'd':
			c.ranges = append(c.ranges, [2]rune{'0', '9'})
		case '-', '.', '\\', '[', ']', '^', '$', '|', '*', '+', '?', '(', ')', '/':
			c.ranges = append(c.ranges, [2]rune{rune(e), rune(e)})
		default:
			return fmt.Errorf("unsupported escape \\%c", e)
		}
		return nil
	}
	k := 0
	if len(p) == 0 {
		return nil, fmt.Errorf("empty pattern")
	}
	switch {
	case p[0] == '[':
		k = 1
		if k < len(p) && p[k] == '^' {
			c.neg = true
			k++
		}
		for ; k < len(p) && p[k] != ']'; k++ {
			ch := p[k]
			if ch >= 0x80 {
				return nil, fmt.Errorf("non-ASCII class item")
			}
			if ch == '\\' {
				k++
				if k >= len(p) {
					return nil, fmt.Errorf("trailing backslash")
				}
				if err := addEsc(p[k]); err != nil {
					return nil, err
				}
				continue
			}
			if k+2 < len(p) && p[k+1] == '-' && p[k+2] != ']' {
				c.ranges = append(c.ranges, [2]rune{rune(ch), rune(p[k+2])})
				k += 2
				continue
			}
			c.ranges = append(c.ranges, [2]rune{rune(ch), rune(ch)})
		}
		if k >= len(p) {
			return nil, fmt.Errorf("unterminated class")
		}
		k++
	case p[0] == '\\' && len(p) >= 2:
		if err := addEsc(p[1]); err != nil {
			return nil, err
		}
		k = 2
	default:
		ch := p[0]
		if ch >= 0x80 || ch == '.' || ch == '(' || ch == '*' || ch == '?' || ch == '^' || ch == '$' || ch == '|' {
			return nil, fmt.Errorf("unsupported pattern")
		}
		c.ranges = append(c.ranges, [2]rune{rune(ch), rune(ch)})
		k = 1
	}
	if k < len(p) && p[k] == '+' {
		c.plus = true
		k++
	}
	if k != len(p) {
		return nil, fmt.Errorf("unsupported pattern tail %q", p[k:])
	}
	return c, nil
}

func (c *reClass) matchConcrete(r rune) bool {
	in := false
	for _, rg := range c.ranges {
		if rg[0] <= r && r <= rg[1] {
			in = true
			break
		}
	}
	return in != c.neg
}

// matchTerm returns the Bool term "rune r matches the class".
func (i *interpreter) reMatch(c *reClass, r value) *Term {
	s := i.st
	if rc, ok := r.(int32); ok {
		return s.Bool(c.matchConcrete(rc))
	}
	t := i.term(r)
	in := s.False
	for _, rg := range c.ranges {
		if rg[0] == rg[1] {
			in = s.Or(in, s.Eq(t, s.BV(32, uint64(rg[0]))))
		} else {
			in = s.Or(in, s.And(s.ULe(s.BV(32, uint64(rg[0])), t), s.ULe(t, s.BV(32, uint64(rg[1])))))
		}
	}
	if c.neg {
		return s.Not(in)
	}
	return in
}

func init() {
	externals["regexp.MustCompile"] = func(fr *frame, a []value) value {
		i := fr.i
		pat, ok := a[0].(string)
		if !ok {
			i.abort(abortUnsupported, "regexp.MustCompile of non-constant pattern")
		}
		rt := i.prog.ImportedPackage("regexp").Type("Regexp").Type()
		c, err := parseSimpleRegexp(pat)
		if err != nil {
			// outside the symbolic fragment: usable on concrete strings only (host regexp)
			nre, nerr := regexp.Compile(pat)
			if nerr != nil {
				panic(targetPanic{iface{i.runtimeErrorString, "regexp: Compile(" + pat + "): " + nerr.Error()}})
			}
			var cell value = zero(rt)
			p := &cell
			if i.nativeRegexps == nil {
				i.nativeRegexps = map[*value]*regexp.Regexp{}
			}
			i.nativeRegexps[p] = nre
			i.regexpsSeen[pat+" (concrete inputs only)"]++
			return p
		}
		var cell value = zero(rt)
		p := &cell
		if i.regexps == nil {
			i.regexps = map[*value]*reClass{}
		}
		i.regexps[p] = c
		i.regexpsSeen[pat]++
		return p
	}
	externals["(*regexp.Regexp).ReplaceAllString"] = func(fr *frame, a []value) value {
		i := fr.i
		if nre := i.nativeRegexps[a[0].(*value)]; nre != nil {
			src, ok1 := concreteString(a[1])
			repl, ok2 := concreteString(a[2])
			if !ok1 || !ok2 {
				i.abortAt(fr, abortUnsupported, "symbolic input to a regexp outside the stub's fragment: "+nre.String())
			}
			return nre.ReplaceAllString(src, repl)
		}
		c := i.regexps[a[0].(*value)]
		if c == nil {
			i.abort(abortUnsupported, "regexp value not created by MustCompile stub")
		}
		src := strBytes(a[1])
		repl := strBytes(a[2])
		for _, b := range repl {
			if bc, ok := b.(uint8); !ok || bc == '$' {
				i.abort(abortUnsupported, "regexp replacement with $ or symbolic bytes")
			}
		}
		var out []value
		inRun := false
		for k := 0; k < len(src); {
			r, n := i.decodeRune(src[k:])
			m := i.simp(i.reMatch(c, r))
			if !c.plus && n == 1 && len(repl) == 1 && !m.IsConst() {
				// byte-for-byte: no fork
				out = append(out, i.val(i.st.Ite(m, i.term(repl[0]), i.term(src[k])), types.Uint8))
				k += n
				continue
			}
			if i.decide(m, "regexp:"+c.src) {
				if !(c.plus && inRun) {
					out = append(out, repl...)
				}
				inRun = true
			} else {
				out = append(out, src[k:k+n]...)
				inRun = false
			}
			k += n
		}
		return mkStr(out)
	}
	externals["(*regexp.Regexp).FindAllString"] = func(fr *frame, a []value) value {
		i := fr.i
		if nre := i.nativeRegexps[a[0].(*value)]; nre != nil {
			src, ok1 := concreteString(a[1])
			if !ok1 {
				i.abortAt(fr, abortUnsupported, "symbolic input to a regexp outside the stub's fragment: "+nre.String())
			}
			var out []value
			for _, m := range nre.FindAllString(src, int(asInt64(a[2]))) {
				out = append(out, m)
			}
			return out
		}
		c := i.regexps[a[0].(*value)]
		if c == nil {
			i.abort(abortUnsupported, "regexp value not created by MustCompile stub")
		}
		src := strBytes(a[1])
		limit := asInt64(a[2])
		type rn struct {
			k, n int
			m    *Term
		}
		var runes []rn
		any := i.st.False
		for k := 0; k < len(src); {
			r, n := i.decodeRune(src[k:])
			m := i.simp(i.reMatch(c, r))
			runes = append(runes, rn{k, n, m})
			any = i.st.Or(any, m)
			k += n
		}
		if !i.decide(any, "regexp.FindAll any:"+c.src) {
			return []value(nil)
		}
		var out []value
		for idx := 0; idx < len(runes); idx++ {
			if limit >= 0 && int64(len(out)) >= limit {
				break
			}
			rr := runes[idx]
			if i.decide(rr.m, "regexp.FindAll:"+c.src) {
				end := rr.k + rr.n
				if c.plus {
					for idx+1 < len(runes) && i.decide(runes[idx+1].m, "regexp.FindAll+:"+c.src) {
						idx++
						end = runes[idx].k + runes[idx].n
					}
				}
				out = append(out, mkStr(src[rr.k:end]))
			}
		}
		return out
	}
	// Split (and anything else the class stub does not cover): the host's regexp on concrete input
	externals["(*regexp.Regexp).Split"] = func(fr *frame, a []value) value {
		i := fr.i
		p := a[0].(*value)
		nre := i.nativeRegexps[p]
		if nre == nil {
			if c := i.regexps[p]; c != nil {
				nre = regexp.MustCompile(c.src)
			}
		}
		if nre == nil {
			i.abort(abortUnsupported, "regexp value not created by MustCompile stub")
		}
		src, ok := concreteString(a[1])
		if !ok {
			i.abortAt(fr, abortUnsupported, "symbolic input to (*Regexp).Split")
		}
		var out []value
		for _, part := range nre.Split(src, int(asInt64(a[2]))) {
			out = append(out, part)
		}
		return out
	}
	externals["(*regexp.Regexp).MatchString"] = func(fr *frame, a []value) value {
		i := fr.i
		if nre := i.nativeRegexps[a[0].(*value)]; nre != nil {
			src, ok := concreteString(a[1])
			if !ok {
				i.abortAt(fr, abortUnsupported, "symbolic input to a regexp outside the stub's fragment: "+nre.String())
			}
			return nre.MatchString(src)
		}
		c := i.regexps[a[0].(*value)]
		if c == nil {
			i.abort(abortUnsupported, "regexp value not created by MustCompile stub")
		}
		src := strBytes(a[1])
		any := i.st.False
		for k := 0; k < len(src); {
			r, n := i.decodeRune(src[k:])
			any = i.st.Or(any, i.reMatch(c, r))
			k += n
		}
		return i.val(any, types.Bool)
	}
}

func concreteString(v value) (string, bool) {
	if s, ok := v.(string); ok {
		return s, true
	}
	bs := strBytes(v)
	out := make([]byte, len(bs))
	for k, b := range bs {
		c, ok := b.(uint8)
		if !ok {
			return "", false
		}
		out[k] = c
	}
	return string(out), true
}
